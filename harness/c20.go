package zv

import (
	"context"
	"fmt"
	"math/big"
	"os"
	"path/filepath"
	"regexp"
	"sort"
	"strconv"
	"strings"

	"go.lsp.dev/protocol"
)

// C20 Hover figures are exact aggregates over the whole include tree.

type c20State struct{ bad [][]string }

func c20Counts(tier string) int64 {
	if tier == "thorough" {
		return 60000
	}
	return 8000
}

func init() {
	Register(&Prop{
		ID:          "C20",
		Rule:        "workspaces of 1-4 journals from G with shared symbol pools (chains, stars, diamonds, random DAGs; amounts in every notation of G with up to 12 decimals, postings with and without amounts), with and without workspace root; hover on EVERY account, payee/description, tag name, tag value and amount occurrence of every file; the markdown is parsed back and compared with exact rational arithmetic on the model over the scope (workspace tree with a root, the file and its include closure without; each file once): per-commodity sums and posting count for accounts, transaction count for payees, use counts for tags and tag values, value and cost for amounts. A missing answer on an occurrence is a violation. A second round follows an unsaved edit (an added transaction on existing accounts/payees) in another file of the workspace. Non-trivial = figure aggregated over >=2 files; distinct by workspace+symbol hash.",
		Notes:       []string{"posting count: both readings of 'such postings' are accepted (all postings to the account, or those with an explicit amount)", "files come from the clean pool of G"},
		Cases:       c20Counts,
		MustObserve: []string{"workspaces", "account_hovers", "payee_hovers", "tag_hovers", "amount_hovers", "figures_over_several_files"},
		Setup:       func(c *Ctx) { c.State = &c20State{bad: c.Known.BadFeatureSets("C03", "C08", "C20")} },
		RunCase:     runC20,
	})
}

var balLineRe = regexp.MustCompile(`^- (\S+) ?(.*)$`)

func hoverText(s *Session, uri protocol.DocumentURI, line, ch int) (string, bool) {
	hv, _ := s.Srv.Hover(context.Background(), &protocol.HoverParams{TextDocumentPositionParams: protocol.TextDocumentPositionParams{
		TextDocument: protocol.TextDocumentIdentifier{URI: uri}, Position: protocol.Position{Line: uint32(line), Character: uint32(ch)}}})
	if hv == nil {
		return "", false
	}
	return hv.Contents.Value, true
}

func intAfter(md, label string) (int, bool) {
	i := strings.Index(md, label)
	if i < 0 {
		return 0, false
	}
	rest := strings.TrimSpace(md[i+len(label):])
	j := 0
	for j < len(rest) && rest[j] >= '0' && rest[j] <= '9' {
		j++
	}
	n, err := strconv.Atoi(rest[:j])
	return n, err == nil
}

func runC20(c *Ctx, idx int64) {
	st := c.State.(*c20State)
	r := c.RNG(idx, 0)
	nf := Pick(r, []int{1, 2, 2, 3, 3, 4})
	w := genWorkspace(r, st.bad, WSOpt{Files: nf, Entries: [2]int{1, 3}, Shape: Pick(r, []string{"chain", "star", "diamond", "random"})})
	w.Root = r.Chance(1, 2)
	dir := filepath.Join(c.Dir, fmt.Sprintf("w%d", idx))
	os.MkdirAll(dir, 0o755)
	defer os.RemoveAll(dir)
	w.Write(dir)
	s := NewSession(dir, SessOpt{Root: w.Root})
	s.Drain()
	for f := range w.Names {
		s.OpenWait(w.URI(s, f), w.Texts[f])
	}
	s.Drain()
	c.Count("workspaces", 1)
	mode := "noroot"
	if w.Root {
		mode = "root"
	}
	fail := func(kind, detail string) {
		c.Violate(Violation{Kind: kind, Sig: "C20:" + kind + "|" + mode, Pool: "clean", Detail: detail, Witness: map[string]any{"workspace": w.String(), "workspace_root": w.Root}})
	}
	closed := map[int]bool{}
	checkAll := func() bool {
		for from := range w.Names {
			if closed[from] {
				continue
			}
			scope := w.Scope(from)
			// model aggregates over the scope
			type acctAgg struct {
				sums     map[string]*big.Rat
				all, amt int
				files    map[int]bool
			}
			accts := map[string]*acctAgg{}
			payees := map[string]int{}
			payeeFiles := map[string]map[int]bool{}
			tagUse := map[string]int{}
			tagValUse := map[string]int{}
			for _, f := range scope {
				for _, e := range w.Journals[f].Entries {
					if e.Kind != "tx" {
						continue
					}
					t := e.Tx
					name := t.Desc
					if t.DescKind == "payee-note" {
						name = t.Payee
					}
					if t.DescKind != "none" {
						payees[name]++
						if payeeFiles[name] == nil {
							payeeFiles[name] = map[int]bool{}
						}
						payeeFiles[name][f] = true
					}
					var cms []*MComment
					cms = append(cms, t.HComment)
					for i := range t.Lines {
						if t.Lines[i].Comment != nil {
							cms = append(cms, t.Lines[i].Comment)
						}
						if p := t.Lines[i].Posting; p != nil {
							cms = append(cms, p.Comment)
							a := accts[p.Account]
							if a == nil {
								a = &acctAgg{sums: map[string]*big.Rat{}, files: map[int]bool{}}
								accts[p.Account] = a
							}
							a.all++
							a.files[f] = true
							if p.Amount != nil {
								a.amt++
								if a.sums[p.Amount.Commodity] == nil {
									a.sums[p.Amount.Commodity] = new(big.Rat)
								}
								a.sums[p.Amount.Commodity].Add(a.sums[p.Amount.Commodity], p.Amount.Rat())
							}
						}
					}
					for _, cm := range cms {
						if cm == nil {
							continue
						}
						for _, tg := range cm.Tags {
							tagUse[tg.Name]++
							tagValUse[tg.Name+"\x00"+tg.Value]++
						}
					}
				}
			}
			uri := w.URI(s, from)
			for _, l := range w.Rd[from].Lex {
				mid := l.U0 + (l.U1-l.U0)/2
				switch {
				case l.Kind == "account" && l.Role != "decl":
					md, ok := hoverText(s, uri, l.Line, mid)
					c.Count("account_hovers", 1)
					if !ok {
						fail("missing-hover(account)", fmt.Sprintf("no hover on account %q at %s %d:%d", l.Name, w.Names[from], l.Line, mid))
						return false
					}
					a := accts[l.Name]
					if len(a.files) >= 2 {
						c.Count("figures_over_several_files", 1)
						c.Nontrivial(HashStr(fmt.Sprintf("%d|acct|%s|%d", idx, l.Name, from)))
					}
					got := map[string]*big.Rat{}
					inBal := false
					for _, ln := range strings.Split(md, "\n") {
						if strings.HasPrefix(ln, "**Balance:**") {
							inBal = true
							continue
						}
						if inBal {
							m := balLineRe.FindStringSubmatch(ln)
							if m == nil {
								inBal = false
								continue
							}
							v, okv := new(big.Rat).SetString(m[1])
							if !okv {
								fail("wrong-sum(unreadable)", fmt.Sprintf("hover on account %q: cannot read balance line %q", l.Name, ln))
								return false
							}
							got[m[2]] = v
						}
					}
					same := len(got) == len(a.sums)
					for cm, v := range a.sums {
						if got[cm] == nil || got[cm].Cmp(v) != 0 {
							same = false
						}
					}
					if !same {
						fail("wrong-sum", fmt.Sprintf("hover on account %q asked from %s: balances %s, the exact sums over %v are %s", l.Name, w.Names[from], fmtDiffs(got), scopeNames(w, scope), fmtDiffs(a.sums)))
						return false
					}
					n, okn := intAfter(md, "**Postings:**")
					if !okn || (n != a.all && n != a.amt) {
						fail("wrong-count(account)", fmt.Sprintf("hover on account %q asked from %s: %d postings, expected %d (or %d with an amount) over %v", l.Name, w.Names[from], n, a.all, a.amt, scopeNames(w, scope)))
						return false
					}
				case l.Kind == "desc" || l.Kind == "payee":
					md, ok := hoverText(s, uri, l.Line, mid)
					c.Count("payee_hovers", 1)
					if !ok {
						fail("missing-hover(payee)", fmt.Sprintf("no hover on payee %q at %s %d:%d", l.Name, w.Names[from], l.Line, mid))
						return false
					}
					if len(payeeFiles[l.Name]) >= 2 {
						c.Count("figures_over_several_files", 1)
						c.Nontrivial(HashStr(fmt.Sprintf("%d|payee|%s|%d", idx, l.Name, from)))
					}
					n, okn := intAfter(md, "**Transactions:**")
					if !okn || n != payees[l.Name] {
						fail("wrong-count(payee)", fmt.Sprintf("hover on payee %q asked from %s: %d transactions, expected %d over %v", l.Name, w.Names[from], n, payees[l.Name], scopeNames(w, scope)))
						return false
					}
				case (l.Kind == "tagname" || l.Kind == "tagvalue") && l.Posting >= -1 && w.Journals[from].Entries[l.Entry].Kind == "tx":
					ch := l.U0
					if l.Kind == "tagvalue" {
						ch = mid
					}
					md, ok := hoverText(s, uri, l.Line, ch)
					c.Count("tag_hovers", 1)
					if !ok {
						fail("missing-hover("+l.Kind+")", fmt.Sprintf("no hover on %s %q at %s %d:%d", l.Kind, l.Text, w.Names[from], l.Line, ch))
						return false
					}
					n, okn := intAfter(md, "**Usage:**")
					want := tagUse[l.Name]
					if l.Kind == "tagvalue" {
						want = tagValUse[l.Name+"\x00"+l.Text]
					}
					if !okn || n != want {
						fail("wrong-count("+l.Kind+")", fmt.Sprintf("hover on %s %q of tag %q asked from %s: usage %d, expected %d over %v", l.Kind, l.Text, l.Name, w.Names[from], n, want, scopeNames(w, scope)))
						return false
					}
				case l.Kind == "number" && l.Role == "amount":
					md, ok := hoverText(s, uri, l.Line, mid)
					c.Count("amount_hovers", 1)
					if !ok {
						fail("missing-hover(amount)", fmt.Sprintf("no hover on amount at %s %d:%d", w.Names[from], l.Line, mid))
						return false
					}
					// model posting
					p := w.Journals[from].Entries[l.Entry].Tx.Postings()[l.Posting]
					first := strings.SplitN(md, "\n", 2)[0]
					rest := strings.TrimPrefix(first, "**Amount:** ")
					f2 := strings.SplitN(rest, " ", 2)
					v, okv := new(big.Rat).SetString(f2[0])
					cm := ""
					if len(f2) > 1 {
						cm = f2[1]
					}
					if !okv || v.Cmp(p.Amount.Rat()) != 0 || cm != p.Amount.Commodity {
						fail("wrong-amount", fmt.Sprintf("hover on amount at %s line %d shows %q, the amount is %s %q", w.Names[from], l.Line+1, first, ratStr(p.Amount.Rat()), p.Amount.Commodity))
						return false
					}
					if p.Cost != nil {
						label := "**Unit cost:** @ "
						if p.Cost.Total {
							label = "**Total cost:** @@ "
						}
						i := strings.Index(md, label)
						okc := false
						if i >= 0 {
							f3 := strings.SplitN(strings.TrimSpace(strings.SplitN(md[i+len(label):], "\n", 2)[0]), " ", 2)
							cv, ok3 := new(big.Rat).SetString(f3[0])
							cc := ""
							if len(f3) > 1 {
								cc = f3[1]
							}
							okc = ok3 && cv.Cmp(p.Cost.Amt.Rat()) == 0 && cc == p.Cost.Amt.Commodity
						}
						if !okc {
							fail("wrong-amount(cost)", fmt.Sprintf("hover on amount at %s line %d shows %q, the cost is %s %q (total=%v)", w.Names[from], l.Line+1, md, ratStr(p.Cost.Amt.Rat()), p.Cost.Amt.Commodity, p.Cost.Total))
							return false
						}
					}
				}
			}
		}
		return true
	}
	if !checkAll() {
		return
	}
	// a second round after an unsaved edit in ANOTHER file: figures asked from every file must
	// follow (nothing may be kept from the first round)
	if nf >= 2 {
		b := r.Intn(nf)
		g2 := NewGen(r, st.bad)
		// a transaction on accounts and a payee that already occur somewhere in the workspace
		for f := range w.Names {
			for _, l := range w.Rd[f].Lex {
				if l.Kind == "account" && len(g2.Accounts) < 6 {
					g2.Accounts = append(g2.Accounts, pooled{V: l.Name})
				}
				if (l.Kind == "desc" || l.Kind == "payee") && len(g2.Payees) < 4 {
					g2.Payees = append(g2.Payees, pooled{V: l.Name})
				}
			}
		}
		e := g2.Entry("tx")
		e.Gap = "one"
		jb := w.Journals[b]
		if !jb.FinalNewline {
			jb.FinalNewline = true
		}
		jb.Entries = append(jb.Entries, e)
		w.render()
		u := w.URI(s, b)
		have := s.Stub.PubCount(u)
		s.ChangeFull(u, w.Texts[b])
		s.WaitPub(u, have)
		s.Drain()
		c.Count("second_round_after_edit_elsewhere", 1)
		mode += "+after-edit-elsewhere"
		if !checkAll() {
			return
		}
		// third round: that file is closed without having been saved: the file on disk (without the
		// new transaction) is what the others are made of again
		if r.Bool() {
			jb.Entries = jb.Entries[:len(jb.Entries)-1]
			w.render()
			s.Close(u)
			s.Drain()
			closed[b] = true
			c.Count("third_round_after_close_without_save", 1)
			mode = strings.Replace(mode, "+after-edit-elsewhere", "+after-close-unsaved", 1)
			if !checkAll() {
				return
			}
			// fourth round: the file is opened again with text that is not the file on disk (the
			// editor restores the unsaved buffer) and nothing is typed: everybody sees that text
			if r.Bool() {
				jb.Entries = append(jb.Entries, e)
				w.render()
				have := s.Stub.PubCount(u)
				s.Open(u, w.Texts[b])
				s.WaitPub(u, have)
				s.Drain()
				delete(closed, b)
				c.Count("fourth_round_after_reopen_with_other_text", 1)
				mode = strings.Replace(mode, "+after-close-unsaved", "+after-reopen-with-other-text", 1)
				if !checkAll() {
					return
				}
			}
		}
	}
	if c.Rep.Evaluations%101 == 0 {
		c.Sample(map[string]any{"case": idx, "files": w.Names, "includes": fmt.Sprint(w.Includes), "workspace_root": w.Root})
	}
}

func scopeNames(w *WS, scope []int) []string {
	var out []string
	for _, f := range scope {
		out = append(out, w.Names[f])
	}
	sort.Strings(out)
	return out
}
