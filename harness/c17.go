package zv

import (
	"context"
	"fmt"
	"strings"

	"go.lsp.dev/protocol"
)

// C17 Semantic tokens cover their lexemes and deltas reconstruct the full result.

type semTok struct {
	Line, Col, Len int
	Type, Mods     uint32
}

const semLegendTypes = 13
const semLegendMods = 2

func decodeSem(data []uint32) ([]semTok, string) {
	if len(data)%5 != 0 {
		return nil, fmt.Sprintf("data length %d is not a multiple of 5", len(data))
	}
	var out []semTok
	line, col := 0, 0
	for i := 0; i+4 < len(data); i += 5 {
		dl, dc := int(data[i]), int(data[i+1])
		if dl > 1<<30 || dc > 1<<30 {
			return nil, fmt.Sprintf("token %d has a delta of %d/%d (unsigned underflow: tokens out of order)", i/5, data[i], data[i+1])
		}
		if dl > 0 {
			line += dl
			col = dc
		} else {
			col += dc
		}
		out = append(out, semTok{line, col, int(data[i+2]), data[i+3], data[i+4]})
	}
	return out, ""
}

var semTypeNames = []string{"account", "commodity", "payee", "date", "amount", "tag", "directive", "code", "status", "comment", "string", "operator", "tagValue"}

// lexeme kinds a token type may cover
var semCompat = map[uint32][]string{
	0:  {"account"},
	1:  {"commodity"},
	2:  {"desc", "payee"},
	3:  {"date", "date2"},
	4:  {"number"},
	5:  {"tagname"},
	6:  {"directive"},
	7:  {"code"},
	8:  {"status"},
	9:  {"comment"},
	10: {"note", "path", "desc", "payee"},
	11: {"op", "pipe"},
	12: {"tagvalue"},
}

func semGeometry(toks []semTok, lines []string) (kind, detail string) {
	for i, t := range toks {
		if t.Type >= semLegendTypes {
			return "bad-type", fmt.Sprintf("token %d has type index %d, the legend has %d types", i, t.Type, semLegendTypes)
		}
		if t.Mods>>semLegendMods != 0 {
			return "bad-modifier", fmt.Sprintf("token %d has modifier bits %b outside the legend", i, t.Mods)
		}
		if t.Line >= len(lines) {
			return "beyond-document", fmt.Sprintf("token %d on line %d, the document has %d lines", i, t.Line, len(lines))
		}
		ll := u16len(strings.TrimSuffix(lines[t.Line], "\r"))
		if t.Col+t.Len > ll {
			return "beyond-line", fmt.Sprintf("token %d (%s) at %d:%d length %d ends behind the line (%d UTF-16 units): %q", i, semTypeNames[t.Type], t.Line, t.Col, t.Len, ll, lines[t.Line])
		}
		if t.Len == 0 {
			return "empty-token", fmt.Sprintf("token %d (%s) at %d:%d has length 0", i, semTypeNames[t.Type], t.Line, t.Col)
		}
		if i > 0 {
			p := toks[i-1]
			if t.Line < p.Line || (t.Line == p.Line && t.Col < p.Col+p.Len) {
				return "overlap-or-order", fmt.Sprintf("token %d (%s %d:%d+%d) does not lie behind token %d (%s %d:%d+%d)", i, semTypeNames[t.Type], t.Line, t.Col, t.Len, i-1, semTypeNames[p.Type], p.Line, p.Col, p.Len)
			}
		}
	}
	return "", ""
}

// semLexemes checks that every token coincides with one lexeme of a compatible kind.
func semLexemes(toks []semTok, rd *Rendered, j *MJournal) (kind, detail string) {
	type key struct{ line, col int }
	byStart := map[key][]Lexeme{}
	for _, l := range rd.Lex {
		byStart[key{l.Line, l.U0}] = append(byStart[key{l.Line, l.U0}], l)
	}
	// indented lines of directive entries (format subdirectives, comments) are lexed as one text
	subLine := map[int]bool{}
	for _, e := range j.Entries {
		if e.Kind == "dir" {
			for l := e.Line0 + 1; l <= e.Line1; l++ {
				subLine[l] = true
			}
		}
	}
	for i, t := range toks {
		if subLine[t.Line] {
			continue
		}
		ok := false
		var cands []string
		for _, l := range byStart[key{t.Line, t.Col}] {
			cands = append(cands, fmt.Sprintf("%s %q(%d)", l.Kind, l.Text, l.U1-l.U0))
			if l.U1-l.U0 != t.Len {
				continue
			}
			for _, k := range semCompat[t.Type] {
				if k == l.Kind {
					ok = true
				}
			}
		}
		if !ok {
			line := ""
			if t.Line < len(rd.Lines) {
				line = rd.Lines[t.Line]
			}
			return "not-a-lexeme(" + semTypeNames[t.Type] + ")", fmt.Sprintf("token %d type %s at %d:%d length %d covers no %v lexeme exactly (lexemes starting there: %v) in line %q", i, semTypeNames[t.Type], t.Line, t.Col, t.Len, semCompat[t.Type], cands, line)
		}
	}
	return "", ""
}

type c17State struct {
	sess  *Session
	nsess int
	bad   [][]string
}

func c17Counts(tier string) (docs, hist int64) {
	if tier == "thorough" {
		return 300000, 100000
	}
	return 10000, 3000
}

func init() {
	Register(&Prop{
		ID:    "C17",
		Race:  true,
		Rule:  "(1) documents: journals from G (clean pool; lexeme table known by construction), damaged and hostile text; semanticTokens/full decoded to absolute positions: geometry (document order, no overlap, inside the line in UTF-16, type/modifier indices inside the advertised legend) on every document, lexeme exactness (each token coincides with exactly one lexeme of a compatible kind: code with parentheses, quoted commodity with quotes, operator on the operator, tag name with its colon, tag value) on G journals; range requests for all line ranges of small documents (sampled for large) must equal the full result restricted to those lines. (2) histories of 5-40 steps over 1-3 documents sharing the server: edits, close/re-open, full and delta requests carrying the current id, a stale id, another document's id or garbage; a model client keeps every array it received per id and applies delta edits; after every request its array must equal a fresh full result for the current text. Non-trivial = document with >=3 tokens / history with >=1 delta answered by edits; distinct by text or history hash.",
		Notes: []string{"indented lines of directives (format subdirectives) are lexed as one text token and are exempt from lexeme exactness", "runs under the race detector (token cache is process-global)"},
		Cases: func(tier string) int64 {
			a, b := c17Counts(tier)
			return a + b
		},
		MustObserve: []string{"documents", "tokens_checked", "range_requests", "histories", "delta_edit_answers", "delta_full_answers"},
		Setup:       func(c *Ctx) { c.State = &c17State{bad: c.Known.BadFeatureSets("C03", "C17")} },
		RunCase: func(c *Ctx, idx int64) {
			a, _ := c17Counts(c.Tier)
			if idx < a {
				c17Doc(c, idx)
			} else {
				c17History(c, idx)
			}
		},
	})
}

func (st *c17State) session(c *Ctx, idx int64) *Session {
	if st.sess == nil || st.nsess > 1500 {
		st.sess = NewSession(fmt.Sprintf("%s/c17-%d", c.Dir, idx), SessOpt{})
		st.nsess = 0
	}
	st.nsess++
	return st.sess
}

func semFull(s *Session, uri protocol.DocumentURI) (*protocol.SemanticTokens, error) {
	return s.Srv.SemanticTokensFull(context.Background(), &protocol.SemanticTokensParams{TextDocument: protocol.TextDocumentIdentifier{URI: uri}})
}

func c17Doc(c *Ctx, idx int64) {
	st := c.State.(*c17State)
	r := c.RNG(idx, 0)
	s := st.session(c, idx)
	g := NewGen(r, st.bad)
	j := g.Journal(r.Range(1, 5))
	rd := j.Render()
	text := rd.Text
	kind := "g"
	switch x := r.Intn(10); {
	case x == 0:
		kind = "hostile"
		text = hostileText(r, text)
	case x == 1:
		kind = "g-damaged"
		lines := strings.Split(text, "\n")
		i := r.Intn(len(lines))
		dm := damageEntry(r, []string{lines[i]}, false)
		if len(dm.Lines) == 1 && !strings.Contains(dm.Lines[0], "\n") {
			lines[i] = dm.Lines[0]
		}
		text = strings.Join(lines, "\n")
	}
	uri := s.URI(fmt.Sprintf("t%d.journal", idx))
	s.Srv.StoreDocument(uri, text)
	defer s.Close(uri)
	res, _ := semFull(s, uri)
	c.Count("documents", 1)
	c.Count("kind:"+kind, 1)
	var data []uint32
	if res != nil {
		data = res.Data
	}
	lines := strings.Split(text, "\n")
	witness := func() map[string]any {
		return map[string]any{"text": text, "kind": kind, "features": j.AllFeats(), "data": fmt.Sprint(data)}
	}
	sigFor := func(k string, fails func(*MJournal) bool) string {
		if kind != "g" {
			return "C17:" + k + "|" + kind
		}
		return "C17:" + k + "|feat:" + featKey(MinimalFailing(j.AllFeats(), fails))
	}
	toks, bad := decodeSem(data)
	if bad != "" {
		c.Violate(Violation{Kind: "geometry(undecodable)", Sig: sigFor("geometry(undecodable)", func(m *MJournal) bool { k, _ := c17Judge(s, m, "geometry"); return k != "" }), Pool: "clean", Detail: bad, Witness: witness()})
		return
	}
	c.Count("tokens_checked", int64(len(toks)))
	if len(toks) >= 3 {
		c.Nontrivial(HashStr(text))
	}
	if k, d := semGeometry(toks, lines); k != "" {
		c.Violate(Violation{Kind: "geometry(" + k + ")", Sig: sigFor("geometry("+k+")", func(m *MJournal) bool { kk, _ := c17Judge(s, m, "geometry"); return kk != "" }), Pool: "clean", Detail: d, Witness: witness()})
		return
	}
	if kind == "g" {
		if k, d := semLexemes(toks, rd, j); k != "" {
			c.Violate(Violation{Kind: k, Sig: sigFor(k, func(m *MJournal) bool { kk, _ := c17Judge(s, m, "lexemes"); return kk == k }), Pool: "clean", Detail: d, Witness: witness()})
			return
		}
	}
	// range requests
	nl := len(lines)
	check := func(a, b int) bool {
		rr, _ := s.Srv.SemanticTokensRange(context.Background(), &protocol.SemanticTokensRangeParams{TextDocument: protocol.TextDocumentIdentifier{URI: uri},
			Range: protocol.Range{Start: protocol.Position{Line: uint32(a)}, End: protocol.Position{Line: uint32(b), Character: 0}}})
		c.Count("range_requests", 1)
		var rdata []uint32
		if rr != nil {
			rdata = rr.Data
		}
		got, bad := decodeSem(rdata)
		if bad != "" {
			c.Violate(Violation{Kind: "range-undecodable", Sig: "C17:range-undecodable|" + kind, Pool: "clean", Detail: bad, Witness: witness()})
			return false
		}
		var want []semTok
		for _, t := range toks {
			if t.Line >= a && t.Line <= b {
				want = append(want, t)
			}
		}
		if fmt.Sprint(got) != fmt.Sprint(want) {
			c.Violate(Violation{Kind: "range≠full", Sig: "C17:range≠full|" + kind, Pool: "clean",
				Detail:  fmt.Sprintf("range request for lines %d-%d returns %v, the full result restricted to those lines is %v", a, b, got, want),
				Witness: witness()})
			return false
		}
		return true
	}
	if nl <= 9 {
		for a := 0; a < nl; a++ {
			for b := a; b < nl; b++ {
				if !check(a, b) {
					return
				}
			}
		}
	} else {
		for k := 0; k < 12; k++ {
			a := r.Intn(nl)
			b := a + r.Intn(nl-a)
			if !check(a, b) {
				return
			}
		}
	}
	if c.Rep.Evaluations%701 == 0 {
		c.Sample(map[string]any{"case": idx, "kind": kind, "text": text, "tokens": len(toks), "first_tokens": fmt.Sprint(toks[:minInt(6, len(toks))])})
	}
}

// c17Judge re-evaluates the document-level oracle for a (reduced) journal.
func c17Judge(s *Session, j *MJournal, which string) (string, string) {
	rd := j.Render()
	uri := s.URI("judge.journal")
	s.Srv.StoreDocument(uri, rd.Text)
	defer s.Close(uri)
	res, _ := semFull(s, uri)
	var data []uint32
	if res != nil {
		data = res.Data
	}
	toks, bad := decodeSem(data)
	if bad != "" {
		return "geometry(undecodable)", bad
	}
	if k, d := semGeometry(toks, strings.Split(rd.Text, "\n")); k != "" {
		return "geometry(" + k + ")", d
	}
	if which == "lexemes" {
		return semLexemes(toks, rd, j)
	}
	return "", ""
}

// ---- delta histories ----

func applySemEdits(base []uint32, edits []protocol.SemanticTokensEdit) ([]uint32, string) {
	// edits refer to the original array; apply from the back
	out := append([]uint32(nil), base...)
	es := append([]protocol.SemanticTokensEdit(nil), edits...)
	for i := 0; i < len(es); i++ {
		for k := i + 1; k < len(es); k++ {
			if es[k].Start > es[i].Start {
				es[i], es[k] = es[k], es[i]
			}
		}
	}
	for _, e := range es {
		a, b := int(e.Start), int(e.Start)+int(e.DeleteCount)
		if a > len(out) || b > len(out) {
			return nil, fmt.Sprintf("edit start %d delete %d beyond the array of length %d", e.Start, e.DeleteCount, len(out))
		}
		out = append(out[:a], append(append([]uint32(nil), e.Data...), out[b:]...)...)
	}
	return out, ""
}

func c17History(c *Ctx, idx int64) {
	st := c.State.(*c17State)
	r := c.RNG(idx, 1)
	s := NewSession(fmt.Sprintf("%s/c17h-%d", c.Dir, idx), SessOpt{})
	ndocs := r.Range(1, 3)
	g := NewGen(r, st.bad)
	mkText := func() string {
		t := g.Journal(r.Range(1, 4)).Render().Text
		if r.Chance(1, 6) {
			t = hostileText(r, t)
		}
		return t
	}
	uris := make([]protocol.DocumentURI, ndocs)
	text := make([]string, ndocs)
	open := make([]bool, ndocs)
	// every (result id, array) pair the client received, per document, oldest first; a request
	// names one pair and a delta answer is applied to exactly that pair's array
	type pair struct {
		id   string
		data []uint32
	}
	held := make([][]pair, ndocs)
	for i := range uris {
		uris[i] = s.URI(fmt.Sprintf("h%d_%d.journal", idx, i))
	}
	lastPair := func(d int) *pair {
		if len(held[d]) == 0 {
			return nil
		}
		return &held[d][len(held[d])-1]
	}
	var trace []string
	deltaEdits := 0
	ctx := context.Background()
	nsteps := r.Range(5, 40)
	fail := func(kind, detail string, d int) {
		c.Violate(Violation{Kind: kind, Sig: "C17:" + kind, Pool: "clean", Detail: detail, Witness: map[string]any{"trace": trace, "text": text[d]}})
	}
	for n := 0; n < nsteps; n++ {
		d := r.Intn(ndocs)
		if !open[d] {
			text[d] = mkText()
			s.Open(uris[d], text[d])
			open[d] = true
			trace = append(trace, fmt.Sprintf("open d%d", d))
			continue
		}
		var clientData []uint32
		switch x := r.Intn(10); {
		case x < 3:
			if r.Chance(1, 3) {
				// small edit: append an entry / change a line
				text[d] = text[d] + "\n2019-03-03 extra\n    a:b  1 USD\n    c:d\n"
			} else {
				text[d] = mkText()
			}
			s.ChangeFull(uris[d], text[d])
			trace = append(trace, fmt.Sprintf("change d%d", d))
			continue
		case x == 3:
			s.Close(uris[d])
			open[d] = false
			trace = append(trace, fmt.Sprintf("close d%d", d))
			continue
		case x < 6:
			res, _ := semFull(s, uris[d])
			trace = append(trace, fmt.Sprintf("full d%d", d))
			if res == nil {
				continue
			}
			held[d] = append(held[d], pair{res.ResultID, res.Data})
			clientData = res.Data
		default:
			// delta with: current id, a stale id, another document's id, garbage
			var base *pair
			which := "current"
			base = lastPair(d)
			switch r.Intn(6) {
			case 0:
				if len(held[d]) > 1 {
					which = "stale"
					base = &held[d][r.Intn(len(held[d])-1)]
				}
			case 1:
				o := r.Intn(ndocs)
				if o != d && lastPair(o) != nil {
					which = "other-doc"
					base = lastPair(o)
				}
			case 2:
				which = "garbage"
				base = &pair{id: Pick(r, []string{"", "0", "999999", "x", "-1"})}
			}
			id := ""
			if base != nil {
				id = base.id
			}
			trace = append(trace, fmt.Sprintf("delta d%d prev=%s(%s)", d, id, which))
			res, _ := s.Srv.SemanticTokensFullDelta(ctx, &protocol.SemanticTokensDeltaParams{TextDocument: protocol.TextDocumentIdentifier{URI: uris[d]}, PreviousResultID: id})
			switch v := res.(type) {
			case *protocol.SemanticTokens:
				c.Count("delta_full_answers", 1)
				held[d] = append(held[d], pair{v.ResultID, v.Data})
				clientData = v.Data
			case *protocol.SemanticTokensDelta:
				c.Count("delta_edit_answers", 1)
				c.Count("delta_edit_answers:"+which, 1)
				deltaEdits++
				if base == nil || which == "garbage" {
					fail("delta-for-unknown-id", fmt.Sprintf("the server answered a delta for previousResultId %q, for which the client holds no array", id), d)
					return
				}
				// the client applies the edits to the array it holds under the id it sent
				nd, bad := applySemEdits(base.data, v.Edits)
				if bad != "" {
					fail("delta-malformed", bad, d)
					return
				}
				held[d] = append(held[d], pair{v.ResultID, nd})
				clientData = nd
			default:
				continue
			}
		}
		// the client's array must equal a fresh full result of the current text (twin document)
		twin := s.URI(fmt.Sprintf("h%d_twin.journal", idx))
		s.Srv.StoreDocument(twin, text[d])
		fr, _ := semFull(s, twin)
		s.Close(twin)
		var want []uint32
		if fr != nil {
			want = fr.Data
		}
		if fmt.Sprint(clientData) != fmt.Sprint(want) {
			fail("delta≠full", fmt.Sprintf("after %q the client's token array (%d ints) differs from a fresh full result (%d ints) for the current text", trace[len(trace)-1], len(clientData), len(want)), d)
			return
		}
	}
	c.Count("histories", 1)
	if deltaEdits > 0 {
		c.Nontrivial(HashStr(strings.Join(trace, ";") + fmt.Sprint(idx)))
	}
	if c.Rep.Evaluations%301 == 0 {
		c.Sample(map[string]any{"case": idx, "monitor": "delta-history", "trace": trace})
	}
}
