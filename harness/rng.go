package zv

// SplitMix64 streams; every random choice in the harness comes from here.

type RNG struct{ s uint64 }

func mix64(z uint64) uint64 {
	z += 0x9e3779b97f4a7c15
	z = (z ^ (z >> 30)) * 0xbf58476d1ce4e5b9
	z = (z ^ (z >> 27)) * 0x94d049bb133111eb
	return z ^ (z >> 31)
}

// NewRNG derives an independent stream from the given parts.
func NewRNG(parts ...uint64) *RNG {
	s := uint64(0x243f6a8885a308d3)
	for _, p := range parts {
		s = mix64(s ^ mix64(p))
	}
	return &RNG{s: s}
}

func HashStr(s string) uint64 {
	h := uint64(14695981039346656037)
	for i := 0; i < len(s); i++ {
		h ^= uint64(s[i])
		h *= 1099511628211
	}
	return mix64(h)
}

func (r *RNG) U64() uint64 {
	r.s += 0x9e3779b97f4a7c15
	z := r.s
	z = (z ^ (z >> 30)) * 0xbf58476d1ce4e5b9
	z = (z ^ (z >> 27)) * 0x94d049bb133111eb
	return z ^ (z >> 31)
}

func (r *RNG) Intn(n int) int {
	if n <= 1 {
		return 0
	}
	return int(r.U64() % uint64(n))
}

// Range returns lo..hi inclusive.
func (r *RNG) Range(lo, hi int) int { return lo + r.Intn(hi-lo+1) }
func (r *RNG) Bool() bool           { return r.U64()&1 == 1 }

// Chance is true with probability num/den.
func (r *RNG) Chance(num, den int) bool { return r.Intn(den) < num }

func Pick[T any](r *RNG, xs []T) T { return xs[r.Intn(len(xs))] }

func (r *RNG) Perm(n int) []int {
	p := make([]int, n)
	for i := range p {
		p[i] = i
	}
	for i := n - 1; i > 0; i-- {
		j := r.Intn(i + 1)
		p[i], p[j] = p[j], p[i]
	}
	return p
}
