package zv

import (
	"fmt"
	"os"
	"path/filepath"
	"sort"
	"strings"

	"github.com/juev/hledger-lsp/internal/include"
)

// C10 Include resolution equals graph reachability, with exact cycle verdicts.

const igN = 4         // files per graph
const igLineStep = 12 // file i starts with i*igLineStep comment lines: a line number names its file

type incGraph struct {
	N        int
	Adj      [igN][igN]bool // Adj[i][j]: file i includes file j
	Dangling [igN]bool      // file i includes a missing file
	Order    [igN][]int     // order of the directives of file i (targets; igN = the dangling one)
	Spelling [igN][igN + 1]string
	Glob     [igN]string // extra glob directive of file i ("" = none)
	SubDirs  bool
	Big      int // index of an oversized file (-1 none)
}

func graphFromBits(bits uint32, n int) *incGraph {
	g := &incGraph{N: n, Big: -1}
	for i := 0; i < n; i++ {
		for j := 0; j < n; j++ {
			if bits&(1<<uint(i*n+j)) != 0 {
				g.Adj[i][j] = true
			}
		}
	}
	return g
}

func (g *incGraph) fileName(i int) string {
	if g.SubDirs {
		return fmt.Sprintf("d%d/f%d.journal", i, i)
	}
	return fmt.Sprintf("f%d.journal", i)
}

func (g *incGraph) setOrders(r *RNG, ascending bool) {
	for i := 0; i < g.N; i++ {
		var ts []int
		for j := 0; j < g.N; j++ {
			if g.Adj[i][j] {
				ts = append(ts, j)
			}
		}
		if g.Dangling[i] {
			ts = append(ts, igN)
		}
		if !ascending {
			p := r.Perm(len(ts))
			o := make([]int, len(ts))
			for k, q := range p {
				o[k] = ts[q]
			}
			ts = o
		}
		g.Order[i] = ts
	}
}

// path spelling of the directive i -> j
func (g *incGraph) spell(dir string, i, j int, style string) string {
	target := "missing" + fmt.Sprint(i) + ".journal"
	if j < igN {
		target = g.fileName(j)
	}
	abs := filepath.Join(dir, target)
	rel := target
	if g.SubDirs {
		rel = "../" + target
	}
	switch style {
	case "dot":
		return "./" + rel
	case "abs":
		return abs
	case "abs-dot":
		// absolute, not in canonical form: the same file all the same
		return filepath.Dir(abs) + "/./" + filepath.Base(abs)
	case "abs-slashes":
		return filepath.Dir(abs) + "//" + filepath.Base(abs)
	case "abs-updown":
		return filepath.Dir(abs) + "/zz/../" + filepath.Base(abs)
	case "home":
		return "~/" + target // HOME is the graph directory
	case "glob":
		if j < igN {
			// a pattern that matches exactly the target
			return strings.Replace(rel, fmt.Sprintf("f%d.", j), fmt.Sprintf("f[%d].", j), 1)
		}
		return rel
	}
	return rel
}

type directiveRef struct {
	File   int
	Target int // igN = dangling, igN+1 = glob directive
	Line   int // 1-based line in file
}

func (g *incGraph) write(dir string, r *RNG, styles []string) (paths []string, dirs []directiveRef) {
	for i := 0; i < g.N; i++ {
		p := filepath.Join(dir, g.fileName(i))
		os.MkdirAll(filepath.Dir(p), 0o755)
		var sb strings.Builder
		for k := 0; k < i*igLineStep; k++ {
			fmt.Fprintf(&sb, "; file %d pad %d\n", i, k)
		}
		line := i*igLineStep + 1
		for _, j := range g.Order[i] {
			st := "rel"
			if len(styles) > 0 {
				st = Pick(r, styles)
			}
			if st == "glob" && j == i {
				st = "dot" // a glob never matches the including file itself; self-loops are spelled literally
			}
			g.Spelling[i][j] = st
			fmt.Fprintf(&sb, "include %s\n", g.spell(dir, i, j, st))
			dirs = append(dirs, directiveRef{File: i, Target: j, Line: line})
			line++
		}
		if g.Glob[i] != "" {
			fmt.Fprintf(&sb, "include %s\n", g.Glob[i])
			dirs = append(dirs, directiveRef{File: i, Target: igN + 1, Line: line})
			line++
		}
		fmt.Fprintf(&sb, "\n2019-01-0%d marker f%d\n    m:f%d  1 USD\n    assets:cash\n", i+1, i, i)
		if g.Big == i {
			for sb.Len() < 3000 {
				sb.WriteString("; padding to exceed the size limit ......................................\n")
			}
		}
		os.WriteFile(p, []byte(sb.String()), 0o644)
		paths = append(paths, p)
	}
	return
}

// reference: document-order DFS with an ancestor stack
type refResult struct {
	Reach    map[int]bool
	CycleA   map[string]bool // flagged directives "file>target" without re-traversal of loaded files
	CycleB   map[string]bool // … with re-traversal
	TrueBack map[string]bool // edges i->j where j reaches i (re-enters a file being included along some path)
	Missing  map[string]bool
	Depth    map[int]int // depth at first visit (reading A)
}

func (g *incGraph) globTargets(i int) []int {
	// the glob directive "f*.journal" of file i matches every file of the directory except i itself
	var ts []int
	if g.Glob[i] == "" {
		return nil
	}
	for j := 0; j < g.N; j++ {
		if j != i {
			ts = append(ts, j)
		}
	}
	return ts
}

func (g *incGraph) succ(i int) []directiveTarget {
	var out []directiveTarget
	for _, j := range g.Order[i] {
		out = append(out, directiveTarget{Dir: j, File: j})
	}
	for _, j := range g.globTargets(i) {
		out = append(out, directiveTarget{Dir: igN + 1, File: j})
	}
	return out
}

type directiveTarget struct {
	Dir  int // directive id within the file (target index, igN dangling, igN+1 glob)
	File int
}

func (g *incGraph) reference() refResult {
	res := refResult{Reach: map[int]bool{}, CycleA: map[string]bool{}, CycleB: map[string]bool{}, TrueBack: map[string]bool{}, Missing: map[string]bool{}, Depth: map[int]int{}}
	// reading A
	onStack := map[int]bool{}
	done := map[int]bool{}
	var dfsA func(i, depth int)
	dfsA = func(i, depth int) {
		onStack[i] = true
		res.Reach[i] = true
		res.Depth[i] = depth
		for _, t := range g.succ(i) {
			if t.File == igN {
				res.Missing[fmt.Sprintf("%d>%d", i, t.Dir)] = true
				continue
			}
			switch {
			case onStack[t.File]:
				res.CycleA[fmt.Sprintf("%d>%d", i, t.Dir)] = true
			case done[t.File]:
			default:
				dfsA(t.File, depth+1)
			}
		}
		onStack[i] = false
		done[i] = true
	}
	dfsA(0, 0)
	// reading B (bounded by the stack, so it terminates)
	onStackB := map[int]bool{}
	var dfsB func(i int)
	dfsB = func(i int) {
		onStackB[i] = true
		for _, t := range g.succ(i) {
			if t.File == igN {
				continue
			}
			if onStackB[t.File] {
				res.CycleB[fmt.Sprintf("%d>%d", i, t.Dir)] = true
			} else {
				dfsB(t.File)
			}
		}
		onStackB[i] = false
	}
	dfsB(0)
	// true back edges: i->j with j ->* i and i reachable
	reach := func(from int) map[int]bool {
		seen := map[int]bool{from: true}
		q := []int{from}
		for len(q) > 0 {
			x := q[0]
			q = q[1:]
			for _, t := range g.succ(x) {
				if t.File < igN && !seen[t.File] {
					seen[t.File] = true
					q = append(q, t.File)
				}
			}
		}
		return seen
	}
	for i := range res.Reach {
		for _, t := range g.succ(i) {
			if t.File < igN && reach(t.File)[i] {
				res.TrueBack[fmt.Sprintf("%d>%d", i, t.Dir)] = true
			}
		}
	}
	return res
}

// referenceLimited is the document-order DFS with a depth limit: a file whose include depth is k
// loads iff k < limit (inclusive=false) or k <= limit (inclusive=true). Edges to files on the
// stack are cycles, edges to loaded files are nothing, whatever the depth.
func (g *incGraph) referenceLimited(limit int, inclusive bool) (files map[int]bool, cycles, tooDeep map[string]bool) {
	files, cycles, tooDeep = map[int]bool{}, map[string]bool{}, map[string]bool{}
	onStack := map[int]bool{}
	done := map[int]bool{}
	var dfs func(i, depth int)
	dfs = func(i, depth int) {
		onStack[i] = true
		for _, t := range g.succ(i) {
			if t.File == igN {
				continue
			}
			key := fmt.Sprintf("%d>%d", i, t.Dir)
			switch {
			case onStack[t.File]:
				cycles[key] = true
			case done[t.File]:
			default:
				k := depth + 1
				if (inclusive && k > limit) || (!inclusive && k >= limit) {
					tooDeep[key] = true
					continue
				}
				files[t.File] = true
				dfs(t.File, k)
			}
		}
		onStack[i] = false
		done[i] = true
	}
	dfs(0, 0)
	return
}

func setStr(m map[string]bool) string {
	var ks []string
	for k := range m {
		ks = append(ks, k)
	}
	sort.Strings(ks)
	return strings.Join(ks, " ")
}

func c10Counts(tier string) (g3, g4 int64, depth, special int64) {
	if tier == "thorough" {
		return 512, 65536 * 3, 60000, 6000
	}
	return 512, 6000, 3000, 600
}

func init() {
	Register(&Prop{
		ID:    "C10",
		Rule:  "include graphs on up to 4 files written to disk (file i starts with i*12 comment lines so a line number names its file): ALL 512 graphs on 3 files and (thorough) ALL 65536 graphs on 4 files x 3 directive orders (6000 sampled in quick), self-loops, k-cycles and diamonds included; plus dangling targets, path spellings (relative, ./, absolute, absolute with redundant /./, // or /x/../ segments, ~/, glob matching exactly one file), a glob directive matching every sibling, sub-directories, depth limits 1..5 on chains and an oversized file. Fresh loader per case. Oracle: a document-order DFS with an ancestor stack computes the reachable set, the back edges (with and without re-traversal of loaded files: either flagged set is accepted, every flagged directive must be a true back edge), the missing targets; Files/FileOrder/errors and their directive lines are compared; server level: every load-error diagnostic under an open document's URI lies on one of that document's include lines. Non-trivial = graph with >=2 reachable files; distinct by graph/spelling hash.",
		Notes: []string{"depth: a file at include depth k (root 0) must load if k < limit and must be reported if k > limit; k = limit is accepted either way", "depth and size limits are exercised on chains / single oversized files only, where the depth of a file is unambiguous"},
		Cases: func(tier string) int64 {
			a, b, c, d := c10Counts(tier)
			return a + b + c + d
		},
		Exhaustive:  func(tier string) bool { return true },
		MustObserve: []string{"graphs", "graphs_with_cycle", "graphs_with_diamond", "errors_checked"},
		RunCase:     runC10,
	})
}

type c10Case struct {
	g      *incGraph
	styles []string
	limits include.Limits
	kind   string
}

func c10Make(c *Ctx, idx int64) c10Case {
	a, b, d, _ := c10Counts(c.Tier)
	r := c.RNG(idx, 0)
	cs := c10Case{limits: include.DefaultLimits(), kind: "graph3"}
	switch {
	case idx < a:
		cs.g = graphFromBits(uint32(idx), 3)
		cs.g.setOrders(r, true)
	case idx < a+b:
		cs.kind = "graph4"
		var bits uint32
		asc := true
		if c.Tier == "thorough" {
			k := idx - a
			bits = uint32(k % 65536)
			asc = k/65536 == 0
		} else {
			bits = uint32(r.Intn(65536))
			asc = r.Bool()
		}
		cs.g = graphFromBits(bits, 4)
		cs.g.setOrders(r, asc)
	case idx < a+b+d:
		// depth limits: chains, and arbitrary graphs (diamond and cycle edges at the limit)
		cs.kind = "depth"
		n := r.Range(2, 4)
		var g *incGraph
		if r.Chance(1, 4) {
			g = &incGraph{N: n, Big: -1}
			for i := 0; i+1 < n; i++ {
				g.Adj[i][i+1] = true
			}
		} else {
			g = graphFromBits(uint32(r.Intn(1<<uint(n*n))), n)
		}
		g.setOrders(r, r.Bool())
		cs.g = g
		cs.limits.MaxIncludeDepth = r.Range(1, 5)
	default:
		cs.kind = "special"
		n := r.Range(2, 4)
		bits := uint32(r.Intn(1 << uint(n*n)))
		g := graphFromBits(bits, n)
		for i := 0; i < n; i++ {
			g.Dangling[i] = r.Chance(1, 3)
		}
		g.SubDirs = r.Chance(1, 3)
		if r.Chance(1, 4) && !g.SubDirs {
			g.Glob[r.Intn(n)] = "f*.journal"
		}
		if r.Chance(1, 5) {
			g.Big = r.Range(1, n-1)
			cs.limits.MaxFileSizeBytes = 2000
		}
		g.setOrders(r, r.Bool())
		cs.g = g
		cs.styles = []string{"rel", "dot", "abs", "home", "glob", "abs-dot", "abs-slashes", "abs-updown"}
	}
	return cs
}

func runC10(c *Ctx, idx int64) {
	cs := c10Make(c, idx)
	g := cs.g
	r := c.RNG(idx, 1)
	dir := filepath.Join(c.Dir, fmt.Sprintf("g%d", idx))
	os.MkdirAll(dir, 0o755)
	defer os.RemoveAll(dir)
	os.Setenv("HOME", dir)
	paths, dirs := g.write(dir, r, cs.styles)
	ref := g.reference()
	c.Count("graphs", 1)
	c.Count("kind:"+cs.kind, 1)
	if len(ref.CycleB) > 0 {
		c.Count("graphs_with_cycle", 1)
	}
	// diamond: some file reachable along two different acyclic directive paths
	indeg := map[int]int{}
	for i := range ref.Reach {
		for _, t := range g.succ(i) {
			if t.File < igN && !ref.TrueBack[fmt.Sprintf("%d>%d", i, t.Dir)] {
				indeg[t.File]++
			}
		}
	}
	diamond := false
	for _, n := range indeg {
		if n > 1 {
			diamond = true
		}
	}
	if diamond {
		c.Count("graphs_with_diamond", 1)
	}
	if len(ref.Reach) >= 2 {
		c.Nontrivial(HashStr(fmt.Sprintf("%s|%v|%v|%v|%v|%v|%v", cs.kind, g.Adj, g.Dangling, g.Order, g.Spelling, g.Glob, cs.limits)))
	}
	loader := include.NewLoader()
	loader.SetLimits(cs.limits)
	res, errs := loader.Load(paths[0])
	witness := func() map[string]any {
		files := map[string]string{}
		for i, p := range paths {
			b, _ := os.ReadFile(p)
			s := string(b)
			if len(s) > 1500 {
				s = s[:1500] + "…"
			}
			files[g.fileName(i)] = s
		}
		var es []string
		for _, e := range errs {
			es = append(es, fmt.Sprintf("kind=%d line=%d path=%s msg=%s", e.Kind, e.Range.Start.Line, strings.TrimPrefix(e.Path, dir+"/"), e.Message))
		}
		return map[string]any{"files": files, "errors": es, "limits": fmt.Sprint(cs.limits), "kind": cs.kind}
	}
	fail := func(kind, detail string) {
		shape := "acyclic"
		if len(ref.CycleB) > 0 {
			shape = "cyclic"
		}
		if diamond {
			shape += "+diamond"
		}
		c.Violate(Violation{Kind: kind, Sig: "C10:" + kind + "|" + cs.kind + "|" + shape, Pool: "clean", Detail: detail, Witness: witness()})
	}
	if res == nil {
		fail("no-result", "Load returned no result")
		return
	}
	idxOf := map[string]int{}
	for i, p := range paths {
		idxOf[p] = i
	}
	depthLimited := cs.kind == "depth"
	// expected files
	wantFiles := map[int]bool{}
	for i := range ref.Reach {
		if i != 0 && i != g.Big {
			wantFiles[i] = true
		}
	}
	if g.Big > 0 {
		// files reachable only through the oversized file are not loaded
		h := *g
		for j := 0; j < igN; j++ {
			h.Adj[g.Big][j] = false
		}
		h.Dangling[g.Big] = false
		h.Glob[g.Big] = ""
		h.Order[g.Big] = nil
		r2 := h.reference()
		wantFiles = map[int]bool{}
		for i := range r2.Reach {
			if i != 0 && i != g.Big {
				wantFiles[i] = true
			}
		}
		ref = r2
	}
	gotFiles := map[int]bool{}
	for p := range res.Files {
		i, ok := idxOf[p]
		if !ok {
			fail("extra-file", "Files contains a path that is not one of the journals: "+p)
			return
		}
		gotFiles[i] = true
	}
	if depthLimited {
		L := cs.limits.MaxIncludeDepth
		// observed errors by directive
		byLine0 := map[int]directiveRef{}
		for _, d := range dirs {
			byLine0[d.Line] = d
		}
		obsCycle, obsDeep := map[string]bool{}, map[string]bool{}
		for _, e := range errs {
			if e.Kind == include.ErrorParseError {
				continue
			}
			d, ok := byLine0[e.Range.Start.Line]
			if !ok {
				fail("depth-error-not-on-directive", fmt.Sprintf("load error %q carries line %d, which is no include directive of any file", e.Message, e.Range.Start.Line))
				return
			}
			key := fmt.Sprintf("%d>%d", d.File, d.Target)
			if strings.Contains(e.Message, "depth limit") {
				obsDeep[key] = true
			} else if e.Kind == include.ErrorCycleDetected {
				obsCycle[key] = true
			}
		}
		c.Count("depth_limited_graphs", 1)
		okAny := false
		var descr []string
		for _, incl := range []bool{false, true} {
			wf, wc, wd := g.referenceLimited(L, incl)
			descr = append(descr, fmt.Sprintf("files %v cycles %q too-deep %q", keysInt(wf), setStr(wc), setStr(wd)))
			if fmt.Sprint(keysInt(wf)) == fmt.Sprint(keysInt(gotFiles)) && setStr(wc) == setStr(obsCycle) && setStr(wd) == setStr(obsDeep) {
				okAny = true
			}
		}
		if !okAny {
			kind := "depth-limit-mismatch"
			if len(obsDeep) > 0 {
				for k := range obsDeep {
					if ref.TrueBack[k] {
						kind = "cycle-reported-as-too-deep"
					}
				}
			}
			fail(kind, fmt.Sprintf("limit %d: loaded %v, cycle errors %q, depth errors %q; a depth-first traversal gives [%s] (file at depth k loads iff k < limit) or [%s] (iff k <= limit)", L, keysInt(gotFiles), setStr(obsCycle), setStr(obsDeep), descr[0], descr[1]))
			return
		}
		_ = wantFiles
	} else {
		for i := range wantFiles {
			if !gotFiles[i] {
				fail("missing-file", fmt.Sprintf("reachable file f%d is not in Files (got %v)", i, keysInt(gotFiles)))
				return
			}
		}
		for i := range gotFiles {
			if !wantFiles[i] {
				kind := "extra-file"
				if i == 0 {
					kind = "root-in-files"
				}
				fail(kind, fmt.Sprintf("f%d is in Files but is not a reachable non-root file (want %v)", i, keysInt(wantFiles)))
				return
			}
		}
	}
	// FileOrder: duplicate-free enumeration of Files
	seen := map[string]bool{}
	for _, p := range res.FileOrder {
		if seen[p] {
			fail("duplicate", "FileOrder lists "+strings.TrimPrefix(p, dir+"/")+" twice")
			return
		}
		seen[p] = true
		if _, ok := res.Files[p]; !ok {
			fail("order-not-in-files", "FileOrder lists a path that is not in Files: "+p)
			return
		}
	}
	if len(seen) != len(res.Files) {
		fail("order-incomplete", fmt.Sprintf("FileOrder has %d entries, Files has %d", len(seen), len(res.Files)))
		return
	}
	// errors: map each to its directive through the line number
	byLine := map[int]directiveRef{}
	for _, d := range dirs {
		byLine[d.Line] = d
	}
	gotCycle := map[string]bool{}
	gotMissing := map[string]bool{}
	gotBig := 0
	gotDepth := 0
	for _, e := range errs {
		if e.Kind == include.ErrorParseError {
			continue
		}
		c.Count("errors_checked", 1)
		d, ok := byLine[e.Range.Start.Line]
		isDepth := strings.Contains(e.Message, "depth limit")
		if !ok {
			kind := "error-not-on-directive"
			if isDepth {
				kind = "depth-error-not-on-directive"
			}
			fail(kind, fmt.Sprintf("load error %q carries line %d, which is no include directive of any file", e.Message, e.Range.Start.Line))
			return
		}
		key := fmt.Sprintf("%d>%d", d.File, d.Target)
		switch {
		case isDepth:
			gotDepth++
		case e.Kind == include.ErrorCycleDetected:
			gotCycle[key] = true
		case e.Kind == include.ErrorFileNotFound:
			gotMissing[key] = true
		case e.Kind == include.ErrorFileTooLarge:
			gotBig++
		}
	}
	if !depthLimited {
		for k := range gotCycle {
			if !ref.TrueBack[k] {
				fail("false-cycle", fmt.Sprintf("directive %s is flagged as a cycle but following it does not re-enter a file that is being included (flagged %s; true back edges %s)", k, setStr(gotCycle), setStr(ref.TrueBack)))
				return
			}
		}
		if setStr(gotCycle) != setStr(ref.CycleA) && setStr(gotCycle) != setStr(ref.CycleB) {
			fail("missed-cycle", fmt.Sprintf("flagged cycle directives %q; a depth-first traversal flags %q (loaded files not re-traversed) or %q (re-traversed)", setStr(gotCycle), setStr(ref.CycleA), setStr(ref.CycleB)))
			return
		}
		// missing targets: those of loaded files
		wantMissing := map[string]bool{}
		for k := range ref.Missing {
			wantMissing[k] = true
		}
		// a glob that matches nothing is reported as not found as well: not generated here
		if setStr(gotMissing) != setStr(wantMissing) {
			fail("missing-target-errors", fmt.Sprintf("file-not-found errors on directives %q, expected %q", setStr(gotMissing), setStr(wantMissing)))
			return
		}
		if g.Big > 0 && ref.Reach[g.Big] == false {
			// unreachable oversized file: nothing to report
		} else if g.Big > 0 && gotBig == 0 {
			fail("missing-size-error", "no file-too-large error for the oversized file")
			return
		}
	}
	// the same loader again (warm parse cache): identical verdicts
	{
		res2, errs2 := loader.Load(paths[0])
		c.Count("warm_cache_reloads", 1)
		if a, b := loadFingerprint(dir, res, errs, paths[0]), loadFingerprint(dir, res2, errs2, paths[0]); a != b {
			fail("warm-cache-differs", "resolving the same root again with the same loader gives a different result: "+oneLine(b, 300)+" instead of "+oneLine(a, 300))
			return
		}
	}
	// (e) server level: load-error diagnostics of the open root lie on its include lines
	sdir := filepath.Join(c.Dir, fmt.Sprintf("gs%d", idx))
	s := NewSession(sdir, SessOpt{})
	defer os.RemoveAll(sdir)
	if cs.kind != "depth" && cs.limits.MaxFileSizeBytes == include.DefaultLimits().MaxFileSizeBytes {
		rootURI := protocolURI(paths[0])
		b, _ := os.ReadFile(paths[0])
		pub, ok := s.OpenWait(rootURI, string(b))
		if !ok {
			c.Inconclusive("no publish: " + s.WaitInfo)
			return
		}
		rootLines := map[int]bool{}
		for _, d := range dirs {
			if d.File == 0 {
				rootLines[d.Line] = true
			}
		}
		for _, dg := range pub.Diagnostics {
			if CodeOf(dg) != "" {
				continue
			}
			c.Count("server_load_diagnostics", 1)
			if !rootLines[int(dg.Range.Start.Line)+1] {
				fail("diagnostic-on-foreign-line", fmt.Sprintf("diagnostic %q is published for the root document on line %d, which is not one of its include lines %v", dg.Message, dg.Range.Start.Line+1, keysInt(rootLines)))
				return
			}
		}
	}
	if c.Rep.Evaluations%409 == 0 {
		c.Sample(map[string]any{"case": idx, "kind": cs.kind, "edges": fmt.Sprint(g.Adj), "reachable": keysInt(ref.Reach), "cycle_directives": setStr(ref.CycleA), "flagged": setStr(gotCycle), "file_order": len(res.FileOrder)})
	}
}

func keysInt(m map[int]bool) []int {
	var ks []int
	for k := range m {
		ks = append(ks, k)
	}
	sort.Ints(ks)
	return ks
}
