package zv

import (
	"fmt"
	"sort"
	"strings"

	"github.com/juev/hledger-lsp/internal/parser"
)

// C03 Supported journals parse silently and faithfully.

type planC struct {
	singles [][]string // forced feature sets (size 1)
	pairs   [][]string
	known   [][]string
}

func knobFeats(fs []string) []string {
	var out []string
	for _, f := range fs {
		if !strings.HasPrefix(f, "has.") {
			out = append(out, f)
		}
	}
	sort.Strings(out)
	return out
}

// parseFails evaluates the C03 oracle on one journal; returns "" when it holds.
func parseFails(j *MJournal) (kind string, detail string, entry int) {
	r := j.Render()
	got, errs := parser.Parse(r.Text)
	if len(errs) > 0 {
		e := errs[0]
		ent := -1
		for i, en := range j.Entries {
			if e.Pos.Line-1 >= en.Line0 && e.Pos.Line-1 <= en.Line1 {
				ent = i
			}
		}
		if ent < 0 {
			// error on a gap line: attribute to the following entry
			for i, en := range j.Entries {
				if en.Line0 >= e.Pos.Line-1 {
					ent = i
					break
				}
			}
		}
		return "syntax-error", fmt.Sprintf("%d:%d %s", e.Pos.Line, e.Pos.Column, e.Message), ent
	}
	mm := CompareJournal(j, got)
	if len(mm) > 0 {
		f := mm[0].Field
		if i := strings.IndexByte(f, '['); i >= 0 {
			if k := strings.IndexByte(f, ']'); k > i {
				f = f[:i] + f[k+1:]
			}
		}
		return "field-mismatch(" + f + ")", mm[0].String(), mm[0].Entry
	}
	return "", "", -1
}

// subJournal keeps the Y directives that precede the chosen entries (partial dates need them).
func subJournal(j *MJournal, keep map[int]bool) *MJournal {
	s := &MJournal{EOL: j.EOL, FinalNewline: j.FinalNewline, Feats: j.Feats}
	for i, e := range j.Entries {
		if keep[i] || (e.Kind == "dir" && e.Dir.Kind == "Y") {
			cp := *e
			s.Entries = append(s.Entries, &cp)
		}
	}
	return s
}

// culpritFeats localises a failure to the smallest group of entries that still fails and
// returns the knob features of that group (plus journal-level features).
func culpritFeats(j *MJournal, entry int, fails func(*MJournal) bool) []string {
	feats := func(s *MJournal, idx ...int) []string {
		m := map[string]bool{}
		for _, f := range j.Feats {
			m[f] = true
		}
		for _, i := range idx {
			if i >= 0 && i < len(j.Entries) {
				for _, f := range j.Entries[i].Feats {
					m[f] = true
				}
			}
		}
		var out []string
		for f := range m {
			out = append(out, f)
		}
		sort.Strings(out)
		return out
	}
	if entry >= 0 && entry < len(j.Entries) {
		if fails(subJournal(j, map[int]bool{entry: true})) {
			return feats(j, entry)
		}
		if entry > 0 && fails(subJournal(j, map[int]bool{entry - 1: true, entry: true})) {
			return append(feats(j, entry-1, entry), "ctx.prev")
		}
		if entry+1 < len(j.Entries) && fails(subJournal(j, map[int]bool{entry: true, entry + 1: true})) {
			return append(feats(j, entry, entry+1), "ctx.next")
		}
	}
	all := make([]int, len(j.Entries))
	for i := range all {
		all[i] = i
	}
	return append(feats(j, all...), "ctx.whole")
}

type c03State struct {
	plan  planC
	sess  *Session
	nsess int
	bad   [][]string
}

func buildPlan(kn *Known, props ...string) planC {
	var p planC
	uni := FeatureUniverse()
	for _, f := range uni {
		p.singles = append(p.singles, []string{f})
	}
	for i := 0; i < len(uni); i++ {
		for k := i + 1; k < len(uni); k++ {
			// two settings of the same knob cannot coexist
			if knobOf(uni[i]) == knobOf(uni[k]) {
				continue
			}
			p.pairs = append(p.pairs, []string{uni[i], uni[k]})
		}
	}
	p.known = kn.BadFeatureSets(props...)
	return p
}

func knobOf(f string) string {
	if i := strings.IndexByte(f, '.'); i >= 0 {
		return f[:i]
	}
	return f
}

func isBadSet(bad [][]string, fs []string) bool {
	have := map[string]bool{}
	for _, f := range fs {
		have[f] = true
	}
	for _, s := range bad {
		if containsAll(have, s) {
			return true
		}
	}
	return false
}

const c03KnownReps = 12

func c03Counts(tier string) (singleReps, pairStride int, random int64) {
	if tier == "thorough" {
		return 6, 1, 1500000
	}
	return 3, 5, 40000
}

func init() {
	var uniN, pairN int
	sizes := func() {
		if uniN == 0 {
			u := FeatureUniverse()
			uniN = len(u)
			for i := 0; i < len(u); i++ {
				for k := i + 1; k < len(u); k++ {
					if knobOf(u[i]) != knobOf(u[k]) {
						pairN++
					}
				}
			}
		}
	}
	Register(&Prop{
		ID:    "C03",
		Rule:  "journals rendered from a model of grammar G (DESIGN 4.2): every single feature and feature pairs forced on a plain background (with and without neighbour entries), then random journals of 2-6 entries with <=3 non-plain features per entry (an eighth of them end with a year history: Y directive, entry with a partial date, another Y directive, entry on the same day spelled the same way); clean pool excludes the feature sets listed as findings, known pool forces exactly those. Oracle: parser.Parse reports no error, the server publishes no code-less diagnostic, and the projection of the AST equals the model (exact rationals). Non-trivial = contains a transaction with >=1 posting; distinct by text hash.",
		Notes: []string{"the model renderer and the comparison are the trusted base", "features outside DESIGN 4.2 are not generated", "a new defect that needs a listed known-bad feature to show is masked"},
		Cases: func(tier string) int64 {
			sizes()
			sr, ps, rnd := c03Counts(tier)
			return int64(uniN*sr*2) + int64(pairN/ps+1) + rnd + 64*c03KnownReps
		},
		MustObserve: []string{"year_history_cases", "parsed", "published", "known_pool_cases"},
		Setup: func(c *Ctx) {
			st := &c03State{}
			st.plan = buildPlan(c.Known, "C03")
			st.bad = c.Known.BadFeatureSets("C03")
			c.State = st
		},
		RunCase: runC03,
	})
}

func (st *c03State) session(c *Ctx) *Session {
	if st.sess == nil || st.nsess > 3000 {
		st.sess = NewSession(fmt.Sprintf("%s/c03-%d", c.Dir, c.Rep.Evaluations), SessOpt{})
		st.nsess = 0
	}
	st.nsess++
	return st.sess
}

func runC03(c *Ctx, idx int64) {
	st := c.State.(*c03State)
	sr, ps, rnd := c03Counts(c.Tier)
	r := c.RNG(idx, 0)
	var j *MJournal
	pool := "clean"
	var forced []string
	nS := int64(len(st.plan.singles) * sr * 2)
	nP := int64(len(st.plan.pairs)/ps + 1)
	switch {
	case idx < nS:
		k := int(idx) / (sr * 2)
		forced = st.plan.singles[k]
		if isBadSet(st.bad, forced) {
			c.Count("skipped_listed_single", 1)
			return
		}
		var ok bool
		j, ok = ForcedJournal(r, st.bad, forced, idx%2 == 1)
		if !ok {
			c.Count("forced_unrealised", 1)
			return
		}
		c.Count("single_feature_cases", 1)
	case idx < nS+nP:
		k := int(idx-nS) * ps
		if ps > 1 {
			k += int(c.Seed % uint64(ps))
		}
		if k >= len(st.plan.pairs) {
			return
		}
		forced = st.plan.pairs[k]
		if isBadSet(st.bad, forced) {
			c.Count("skipped_listed_pair", 1)
			return
		}
		var ok bool
		j, ok = ForcedJournal(r, st.bad, forced, r.Bool())
		if !ok {
			c.Count("forced_unrealised", 1)
			return
		}
		c.Count("pair_feature_cases", 1)
	case idx < nS+nP+rnd:
		g := NewGen(r, st.bad)
		j = g.Journal(r.Range(2, 6))
		c.Count("random_cases", 1)
		if r.Chance(1, 8) && appendYearHistory(g, j) {
			c.Count("year_history_cases", 1)
		}
	default:
		// known pool: re-confirm each listed finding
		k := int(idx-nS-nP-rnd) / c03KnownReps
		if k >= len(st.plan.known) {
			return
		}
		forced = st.plan.known[k]
		pool = "known"
		var ok bool
		j, ok = ForcedJournal(r, nil, forced, r.Bool())
		if !ok {
			c.Count("forced_unrealised", 1)
			return
		}
		c.Count("known_pool_cases", 1)
	}
	if pool == "clean" && len(st.plan.known) == 0 {
		c.Count("known_pool_cases", 1) // nothing listed: the known pool is empty by construction
	}
	rd := j.Render()
	c.Count("parsed", 1)
	hasTx := false
	for _, e := range j.Entries {
		if e.Kind == "tx" && len(e.Tx.Postings()) > 0 {
			hasTx = true
		}
	}
	if hasTx {
		c.Nontrivial(HashStr(rd.Text))
	}
	for _, f := range j.AllFeats() {
		c.Count("feat:"+f, 1)
	}
	kind, detail, entry := parseFails(j)
	// server level: no code-less diagnostic may be published
	if kind == "" {
		s := st.session(c)
		uri := s.URI(fmt.Sprintf("d%d.journal", idx))
		pub, ok := s.OpenWait(uri, rd.Text)
		s.Close(uri)
		if !ok {
			c.Inconclusive("no publish for opened document: " + s.WaitInfo)
		} else {
			c.Count("published", 1)
			for _, d := range pub.Diagnostics {
				if CodeOf(d) == "" {
					kind, detail, entry = "syntax-diagnostic", DiagKey(d), -1
					for i, en := range j.Entries {
						if int(d.Range.Start.Line) >= en.Line0 && int(d.Range.Start.Line) <= en.Line1 {
							entry = i
						}
					}
					break
				}
			}
		}
	}
	if c.Rep.Evaluations%977 == 0 {
		c.Sample(map[string]any{"case": idx, "pool": pool, "features": j.AllFeats(), "text": rd.Text, "verdict": "parse silent and faithful: " + fmt.Sprint(kind == "")})
	}
	if kind == "" {
		return
	}
	var feats []string
	if pool == "known" {
		feats = forced
	} else {
		fails := func(s *MJournal) bool { k, _, _ := parseFails(s); return k != "" }
		feats = culpritFeats(j, entry, fails)
		feats = MinimalFailing(feats, fails)
	}
	sig := "feat:" + featKey(feats)
	if len(feats) == 0 {
		sig = "feat:plain"
	}
	c.Violate(Violation{Kind: kind, Sig: sig, Pool: pool, Features: feats, Detail: detail,
		Witness: map[string]any{"text": rd.Text, "features": j.AllFeats(), "entry": entry}})
}

// appendYearHistory ends the journal with: Y directive, entry with a partial date, another Y
// directive, entry on the same day spelled the same way (a closing entry every 12/31): a partial
// date belongs to the year in force where it stands, however often its spelling occurred before.
func appendYearHistory(g *Gen, j *MJournal) bool {
	mk := func(kind, force string) *MEntry {
		g.force[force] = true
		e := g.Entry(kind)
		delete(g.force, force)
		return e
	}
	y1 := mk("dir", "dir.Y")
	t1 := mk("tx", "date.partial")
	y2 := mk("dir", "dir.Y")
	t2 := mk("tx", "date.partial")
	if y1.Dir == nil || y2.Dir == nil || y1.Dir.Year == 0 || y2.Dir.Year == 0 || t1.Tx == nil || t2.Tx == nil || !t1.Tx.Date.Partial || !t2.Tx.Date.Partial {
		return false
	}
	// the last date read before the second directive is the one that comes back behind it
	last := t1.Tx.Date
	if t1.Tx.Date2 != nil {
		if !t1.Tx.Date2.Partial {
			t1.Tx.Date2 = nil
		} else {
			last = *t1.Tx.Date2
		}
	}
	last.Y = y2.Dir.Year
	t2.Tx.Date = last
	j.Entries = append(j.Entries, y1, t1, y2, t2)
	return true
}

// MinimalFailing reduces a failing feature set to the smallest subset (size <= 3) that fails
// when forced alone on a plain background (deterministic: fixed PRNG streams per subset).
func MinimalFailing(feats []string, fails func(*MJournal) bool) []string {
	var fs []string
	ctx := ""
	for _, f := range feats {
		if strings.HasPrefix(f, "ctx.") {
			ctx = f
			continue
		}
		fs = append(fs, f)
	}
	sort.Strings(fs)
	try := func(set []string) bool {
		for k := 0; k < 10; k++ {
			r := NewRNG(HashStr(featKey(set)), uint64(k))
			j, ok := ForcedJournal(r, nil, set, k%2 == 1)
			if ok && fails(j) {
				return true
			}
		}
		return false
	}
	n := len(fs)
	for i := 0; i < n; i++ {
		if try([]string{fs[i]}) {
			return []string{fs[i]}
		}
	}
	for i := 0; i < n; i++ {
		for k := i + 1; k < n; k++ {
			if knobOf(fs[i]) == knobOf(fs[k]) && knobOf(fs[i]) != "has" && knobOf(fs[i]) != "dir" {
				continue
			}
			if try([]string{fs[i], fs[k]}) {
				return []string{fs[i], fs[k]}
			}
		}
	}
	if n <= 9 {
		for i := 0; i < n; i++ {
			for k := i + 1; k < n; k++ {
				for l := k + 1; l < n; l++ {
					if try([]string{fs[i], fs[k], fs[l]}) {
						return []string{fs[i], fs[k], fs[l]}
					}
				}
			}
		}
	}
	out := append([]string{}, fs...)
	if ctx != "" {
		out = append(out, ctx)
	}
	return append(out, "ctx.unreduced")
}
