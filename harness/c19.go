package zv

import (
	"context"
	"encoding/json"
	"fmt"
	"os"
	"path/filepath"
	"sort"
	"strings"

	"go.lsp.dev/protocol"
)

// C19 Configuration is total, validated and effective.

type cfgModel struct {
	MaxResults                                  int
	Fuzzy, ShowCounts                           bool
	Indent, MinCol                              int
	Align                                       bool
	UndeclAcc, UndeclCm, Unbalanced             bool
	FDiagnostics, FInline                       bool
	FHover, FCompletion, FFormatting, FSemantic bool
	FFolding, FLinks, FWsSymbol, FCodeActions   bool
	Depth                                       int
	FileSize                                    int64
}

func defaultCfgModel() cfgModel {
	return cfgModel{MaxResults: 50, Fuzzy: true, ShowCounts: true, Indent: 4, Align: true, UndeclAcc: true, UndeclCm: true, Unbalanced: true,
		FDiagnostics: true, FInline: true, FHover: true, FCompletion: true, FFormatting: true, FSemantic: true, FFolding: true, FLinks: true, FWsSymbol: true, FCodeActions: true,
		Depth: 50, FileSize: 10 * 1024 * 1024}
}

type cfgKey struct {
	Section, Name string
	Kind          string // bool int int64
}

var cfgKeys = []cfgKey{
	{"completion", "maxResults", "int"}, {"completion", "fuzzyMatching", "bool"}, {"completion", "showCounts", "bool"},
	{"formatting", "indentSize", "int"}, {"formatting", "alignAmounts", "bool"}, {"formatting", "minAlignmentColumn", "int"},
	{"diagnostics", "undeclaredAccounts", "bool"}, {"diagnostics", "undeclaredCommodities", "bool"}, {"diagnostics", "unbalancedTransactions", "bool"},
	{"features", "diagnostics", "bool"}, {"features", "inlineCompletion", "bool"}, {"features", "hover", "bool"}, {"features", "completion", "bool"},
	{"features", "formatting", "bool"}, {"features", "semanticTokens", "bool"}, {"features", "foldingRanges", "bool"}, {"features", "documentLinks", "bool"},
	{"features", "workspaceSymbol", "bool"}, {"features", "codeActions", "bool"},
	{"limits", "maxIncludeDepth", "int"}, {"limits", "maxFileSizeBytes", "int64"},
}

// modelBool / modelInt: the documented coercions.
func modelBool(v any) (bool, bool) {
	switch x := v.(type) {
	case bool:
		return x, true
	case string:
		switch strings.TrimSpace(strings.ToLower(x)) {
		case "true":
			return true, true
		case "false":
			return false, true
		}
	}
	return false, false
}

func modelInt(v any) (int64, bool, bool) { // value, ok, predictable
	switch x := v.(type) {
	case float64:
		if x != float64(int64(x)) {
			return 0, true, false // non-integral: truncation is not specified
		}
		if x > 1<<53 || x < -(1<<53) {
			return 0, true, false
		}
		return int64(x), true, true
	case string:
		t := strings.TrimSpace(x)
		if t == "" {
			return 0, false, true
		}
		neg := false
		d := t
		if strings.HasPrefix(d, "-") || strings.HasPrefix(d, "+") {
			neg = d[0] == '-'
			d = d[1:]
		}
		if d == "" {
			return 0, false, true
		}
		var n int64
		for _, ch := range d {
			if ch < '0' || ch > '9' {
				return 0, false, true
			}
			if n > 1<<50 {
				return 0, true, false
			}
			n = n*10 + int64(ch-'0')
		}
		if neg {
			n = -n
		}
		return n, true, true
	}
	return 0, false, true
}

func (m *cfgModel) set(k cfgKey, v any) (predictable bool) {
	predictable = true
	if k.Kind == "bool" {
		b, ok := modelBool(v)
		if !ok {
			return
		}
		switch k.Section + "." + k.Name {
		case "completion.fuzzyMatching":
			m.Fuzzy = b
		case "completion.showCounts":
			m.ShowCounts = b
		case "formatting.alignAmounts":
			m.Align = b
		case "diagnostics.undeclaredAccounts":
			m.UndeclAcc = b
		case "diagnostics.undeclaredCommodities":
			m.UndeclCm = b
		case "diagnostics.unbalancedTransactions":
			m.Unbalanced = b
		case "features.diagnostics":
			m.FDiagnostics = b
		case "features.inlineCompletion":
			m.FInline = b
		case "features.hover":
			m.FHover = b
		case "features.completion":
			m.FCompletion = b
		case "features.formatting":
			m.FFormatting = b
		case "features.semanticTokens":
			m.FSemantic = b
		case "features.foldingRanges":
			m.FFolding = b
		case "features.documentLinks":
			m.FLinks = b
		case "features.workspaceSymbol":
			m.FWsSymbol = b
		case "features.codeActions":
			m.FCodeActions = b
		}
		return
	}
	n, ok, pred := modelInt(v)
	if !pred {
		return false
	}
	if !ok {
		return
	}
	switch k.Section + "." + k.Name {
	case "completion.maxResults":
		m.MaxResults = int(n)
	case "formatting.indentSize":
		if n > 64 {
			return false // beyond any sensible width: what "takes effect" means is not specified
		}
		m.Indent = int(n)
	case "formatting.minAlignmentColumn":
		if n > 1024 {
			return false
		}
		m.MinCol = int(n)
	case "limits.maxIncludeDepth":
		m.Depth = int(n)
	case "limits.maxFileSizeBytes":
		m.FileSize = n
	}
	return
}

func (m *cfgModel) normalize() {
	d := defaultCfgModel()
	if m.MaxResults <= 0 {
		m.MaxResults = d.MaxResults
	}
	if m.Indent <= 0 {
		m.Indent = d.Indent
	}
	if m.Depth <= 0 {
		m.Depth = d.Depth
	}
	if m.FileSize <= 0 {
		m.FileSize = d.FileSize
	}
}

// apply a payload; returns false when the outcome is not predictable (unspecified coercion).
func (m *cfgModel) apply(payload any) bool {
	obj, ok := payload.(map[string]any)
	if !ok {
		return true
	}
	if nested, ok := obj["hledger"]; ok {
		return m.apply(nested)
	}
	pred := true
	for _, k := range cfgKeys {
		if sec, ok := obj[k.Section].(map[string]any); ok {
			if v, ok := sec[k.Name]; ok {
				pred = m.set(k, v) && pred
			}
		}
		if v, ok := obj[k.Section+"."+k.Name]; ok {
			pred = m.set(k, v) && pred
		}
	}
	m.normalize()
	return pred
}

// ---- payload generator ----

func cfgValue(r *RNG, k cfgKey) (any, string) {
	switch r.Intn(10) {
	case 0, 1, 2, 3: // well-typed
		if k.Kind == "bool" {
			return r.Bool(), "well-typed"
		}
		return float64(cfgIntFor(r, k)), "well-typed"
	case 4: // coercible string
		if k.Kind == "bool" {
			return Pick(r, []string{"true", "false", " TRUE ", "False"}), "coercible"
		}
		// decimal digits, possibly zero-padded or with an explicit plus sign
		return fmt.Sprintf("%s%s%d%s", Pick(r, []string{"", " "}), Pick(r, []string{"", "", "", "0", "00", "+"}), cfgIntFor(r, k), Pick(r, []string{"", " "})), "coercible"
	case 5: // non-positive
		if k.Kind == "bool" {
			return r.Bool(), "well-typed"
		}
		return float64(Pick(r, []int{0, -1, -50})), "non-positive"
	case 6: // ill-typed
		return Pick(r, []any{nil, []any{1, 2}, map[string]any{"x": 1}, "yes", "abc", "", "1.5x", "--3", "0x10", "0b101", "1_0", "0o7", "1e1"}), "ill-typed"
	case 7: // wrong scalar
		if k.Kind == "bool" {
			return float64(1), "ill-typed"
		}
		return true, "ill-typed"
	case 8: // huge / odd numbers (totality only where unpredictable)
		if k.Kind == "bool" {
			return "TrUe", "coercible"
		}
		return Pick(r, []any{float64(1 << 31), float64(1 << 62), 1e300, 2.5, -0.5, "99999999999999999999", "2147483648"}), "out-of-range"
	default:
		if k.Kind == "bool" {
			return !true, "well-typed"
		}
		return float64(cfgIntFor(r, k)), "well-typed"
	}
}

func cfgIntFor(r *RNG, k cfgKey) int {
	switch k.Name {
	case "maxResults":
		return Pick(r, []int{1, 2, 3, 5, 10, 50, 200, 1000})
	case "indentSize":
		return r.Range(1, 8)
	case "minAlignmentColumn":
		return Pick(r, []int{1, 20, 40, 80})
	case "maxIncludeDepth":
		return r.Range(1, 6)
	case "maxFileSizeBytes":
		return Pick(r, []int{100, 1000, 3000, 100000})
	}
	return 1
}

func cfgPayloadFull(r *RNG) (any, []string) {
	var classes []string
	if r.Chance(1, 12) {
		classes = append(classes, "non-object")
		return Pick(r, []any{nil, true, 3.0, "hledger", []any{}, []any{map[string]any{"completion": map[string]any{"maxResults": 1}}}}), classes
	}
	obj := map[string]any{}
	nkeys := r.Range(1, 5)
	for i := 0; i < nkeys; i++ {
		k := Pick(r, cfgKeys)
		v, cl := cfgValue(r, k)
		classes = append(classes, cl)
		dotted := k.Section + "." + k.Name
		// never both spellings of one key in one payload
		if sec, ok := obj[k.Section].(map[string]any); ok {
			if _, dup := sec[k.Name]; dup {
				continue
			}
		}
		if _, dup := obj[dotted]; dup {
			continue
		}
		if r.Chance(1, 3) {
			obj[dotted] = v
			classes = append(classes, "dotted")
		} else {
			sec, ok := obj[k.Section].(map[string]any)
			if !ok {
				if _, exists := obj[k.Section]; exists {
					continue
				}
				sec = map[string]any{}
				obj[k.Section] = sec
			}
			sec[k.Name] = v
		}
	}
	if r.Chance(1, 5) {
		obj[Pick(r, []string{"unknown", "completion.unknown", "Completion", "features.hoverr"})] = Pick(r, []any{1.0, "x", nil, map[string]any{"a": []any{1}}})
		classes = append(classes, "unknown-key")
	}
	if r.Chance(1, 8) {
		// a section that is not an object
		sec := Pick(r, []string{"completion", "formatting", "limits", "cli"})
		if _, exists := obj[sec]; !exists {
			obj[sec] = Pick(r, []any{5.0, "x", nil, []any{1}})
			classes = append(classes, "section-not-object")
		}
	}
	if r.Chance(1, 4) {
		classes = append(classes, "wrapped")
		return map[string]any{"hledger": obj, "other": map[string]any{"x": 1}}, classes
	}
	return obj, classes
}

// ---- probes ----

type c19Fixture struct {
	dir      string
	acctText string
	fmtText  string
	diagText string
	tmplText string
}

func c19Fixtures(dir string) *c19Fixture {
	fx := &c19Fixture{dir: dir}
	os.MkdirAll(dir, 0o755)
	var sb strings.Builder
	for i := 0; i < 300; i++ {
		fmt.Fprintf(&sb, "2019-01-01 t%d\n    expenses:food%03d  1 USD\n    assets:cash\n\n", i, i)
	}
	sb.WriteString("2019-02-01 probe\n    \n    efd\n")
	fx.acctText = sb.String()
	fx.fmtText = "2019-01-01 x\n  assets:cash      1 USD\n  expenses:food\n"
	fx.diagText = "account assets:cash\ncommodity USD\n\n2019-01-01 x\n    assets:cash  1 USD\n    odd:acct  2 EUR\n"
	fx.tmplText = "2019-01-01 Shop\n    expenses:food  5 USD\n    assets:cash\n\n2019-01-02 Shop\n\n"
	// include chain and a 2 KiB include
	os.WriteFile(filepath.Join(dir, "l1.journal"), []byte("include l2.journal\n"), 0o644)
	os.WriteFile(filepath.Join(dir, "l2.journal"), []byte("include l3.journal\n"), 0o644)
	os.WriteFile(filepath.Join(dir, "l3.journal"), []byte("2019-01-01 deep\n    a:b  1 USD\n    c:d\n"), 0o644)
	os.WriteFile(filepath.Join(dir, "big.journal"), []byte(strings.Repeat("; padding padding padding padding padding padding padding padding\n", 32)), 0o644)
	return fx
}

type c19Obs map[string]string

func c19Probe(s *Session, fx *c19Fixture, tag string) c19Obs {
	obs := c19Obs{}
	ctx := context.Background()
	open := func(name, text string) (protocol.DocumentURI, *protocol.PublishDiagnosticsParams) {
		u := s.URI(name + tag + ".journal")
		p, _ := s.OpenWait(u, text)
		return u, p
	}
	// a document that stays open and unedited across all events: does a request on it see the file
	// at include depth 3? Asked first: opening or closing any document would refresh the stored trees.
	ku := s.URI("keep.journal")
	if _, isOpen := s.Srv.GetDocument(ku); !isOpen {
		s.OpenWait(ku, c19KeepText)
		s.Drain()
	}
	locs, _ := s.Srv.References(ctx, &protocol.ReferenceParams{TextDocumentPositionParams: protocol.TextDocumentPositionParams{TextDocument: protocol.TextDocumentIdentifier{URI: ku}, Position: protocol.Position{Line: 3, Character: 5}}, Context: protocol.ReferenceContext{IncludeDeclaration: true}})
	sees := false
	for _, l := range locs {
		if strings.HasSuffix(string(l.URI), "/l3.journal") {
			sees = true
		}
	}
	obs["limits.open-document-sees-depth-3"] = fmt.Sprint(sees)
	// completion
	u, _ := open("acct", fx.acctText)
	nlines := strings.Count(fx.acctText, "\n")
	cl, _ := s.Srv.Completion(ctx, &protocol.CompletionParams{TextDocumentPositionParams: protocol.TextDocumentPositionParams{TextDocument: protocol.TextDocumentIdentifier{URI: u}, Position: protocol.Position{Line: uint32(nlines - 2), Character: 4}}})
	n := 0
	detail := ""
	if cl != nil {
		n = len(cl.Items)
		if n > 0 {
			detail = cl.Items[0].Detail
		}
	}
	obs["completion.count"] = fmt.Sprint(n)
	obs["completion.counts-shown"] = fmt.Sprint(strings.Contains(detail, "("))
	cl2, _ := s.Srv.Completion(ctx, &protocol.CompletionParams{TextDocumentPositionParams: protocol.TextDocumentPositionParams{TextDocument: protocol.TextDocumentIdentifier{URI: u}, Position: protocol.Position{Line: uint32(nlines - 1), Character: 7}}})
	obs["completion.subsequence-match"] = fmt.Sprint(cl2 != nil && len(cl2.Items) > 0)
	s.Close(u)
	// formatting
	u, _ = open("fmt", fx.fmtText)
	edits, _ := s.Srv.Format(ctx, &protocol.DocumentFormattingParams{TextDocument: protocol.TextDocumentIdentifier{URI: u}})
	after, prob := applyEdits(fx.fmtText, edits)
	if prob != nil {
		obs["format"] = "malformed:" + prob.Detail
	} else {
		lines := strings.Split(after, "\n")
		if len(lines) > 1 {
			l := lines[1]
			ind := len(l) - len(strings.TrimLeft(l, " "))
			col := strings.Index(l, "1 USD")
			obs["format.indent"] = fmt.Sprint(ind)
			obs["format.amount-column"] = fmt.Sprint(col)
		}
	}
	s.Close(u)
	// diagnostics
	u, pub := open("diag", fx.diagText)
	var codes []string
	if pub != nil {
		for _, d := range pub.Diagnostics {
			codes = append(codes, CodeOf(d))
		}
	}
	sort.Strings(codes)
	obs["diagnostics.codes"] = strings.Join(codes, ",")
	s.Close(u)
	// inline completion
	u, _ = open("tmpl", fx.tmplText)
	pj, _ := json.Marshal(map[string]any{"textDocument": protocol.TextDocumentIdentifier{URI: u}, "position": protocol.Position{Line: 5, Character: 0}, "context": map[string]any{"triggerKind": 1}})
	ic, _ := s.Srv.InlineCompletion(ctx, pj)
	if ic == nil || len(ic.Items) == 0 {
		obs["inline"] = "none"
	} else {
		t := ic.Items[0].InsertText
		obs["inline"] = fmt.Sprint(len(t) - len(strings.TrimLeft(t, " ")))
	}
	s.Close(u)
	// limits: include chain of depth 3 and a 2 KiB include
	u, pub = open("chain", "include l1.journal\ninclude big.journal\n")
	deep, large := false, false
	if pub != nil {
		for _, d := range pub.Diagnostics {
			if strings.Contains(d.Message, "depth limit") {
				deep = true
			}
			if strings.Contains(d.Message, "too large") {
				large = true
			}
		}
	}
	obs["limits.depth-error"] = fmt.Sprint(deep)
	obs["limits.size-error"] = fmt.Sprint(large)
	s.Close(u)
	// leave the battery with a tree of the kept document resolved under the present settings
	s.Srv.References(ctx, &protocol.ReferenceParams{TextDocumentPositionParams: protocol.TextDocumentPositionParams{TextDocument: protocol.TextDocumentIdentifier{URI: ku}, Position: protocol.Position{Line: 3, Character: 5}}, Context: protocol.ReferenceContext{IncludeDeclaration: true}})
	return obs
}

func (m cfgModel) predict() c19Obs {
	p := c19Obs{}
	n := 301 // 300 expense accounts and assets:cash
	if m.MaxResults < n {
		n = m.MaxResults
	}
	p["completion.count"] = fmt.Sprint(n)
	p["completion.counts-shown"] = fmt.Sprint(m.ShowCounts)
	p["completion.subsequence-match"] = fmt.Sprint(m.Fuzzy)
	p["format.indent"] = fmt.Sprint(m.Indent)
	col := m.Indent + len("assets:cash") + 2
	if m.Align {
		col = m.Indent + len("expenses:food") + 2
		if m.MinCol > col {
			col = m.MinCol
		}
	}
	p["format.amount-column"] = fmt.Sprint(col)
	var codes []string
	if m.FDiagnostics {
		if m.Unbalanced {
			codes = append(codes, "UNBALANCED")
		}
		if m.UndeclAcc {
			codes = append(codes, "UNDECLARED_ACCOUNT")
		}
		if m.UndeclCm {
			codes = append(codes, "UNDECLARED_COMMODITY")
		}
	}
	sort.Strings(codes)
	p["diagnostics.codes"] = strings.Join(codes, ",")
	if m.FInline {
		p["inline"] = fmt.Sprint(m.Indent)
	} else {
		p["inline"] = "none"
	}
	if m.FDiagnostics {
		// chain main(0) -> l1(1) -> l2(2) -> l3(3): a file at depth k loads iff k < limit
		p["limits.depth-error"] = fmt.Sprint(m.Depth <= 3)
		// big.journal is included at depth 1: the depth limit is checked before the file is looked at
		p["limits.size-error"] = fmt.Sprint(m.FileSize < 2112 && m.Depth > 1)
	} else {
		p["limits.depth-error"] = "false"
		p["limits.size-error"] = "false"
	}
	p["limits.open-document-sees-depth-3"] = fmt.Sprint(m.Depth > 3)
	return p
}

const c19KeepText = "include l1.journal\n\n2019-02-02 keep\n    a:b  1 USD\n    c:d\n"

type c19State struct {
	fx *c19Fixture
}

func c19Counts(tier string) int64 {
	if tier == "thorough" {
		return 60000
	}
	return 2500
}

func init() {
	Register(&Prop{
		ID:          "C19",
		Race:        true,
		Rule:        "sequences of 1-4 configuration events: optional initializationOptions, then didChangeConfiguration answered by a scripted workspace/configuration reply; payloads from a shape grammar over all JSON value kinds (recognised keys nested or dotted, optional {\"hledger\":…} wrapper with siblings, well-typed, coercible strings, non-positive, ill-typed (null/array/object/wrong scalar), out-of-range and non-integral numbers, unknown keys, sections that are not objects, payloads that are not objects). After every event a probe battery is run (completion count on a document with 300 accounts, subsequence-only query, count details, formatting indent and amount column, diagnostic codes of a fixed document, inline completion and its indent, include-depth and file-size errors of a fixed include chain, references from a document that stays open and unedited across all events into the file at include depth 3; advertised capabilities after initialize) and compared with a reference settings model (defaults, documented coercions, non-positive -> default, ill-typed/unknown -> unchanged). Totality: no panic, death or deadlock for any payload. Non-trivial = sequence containing >=1 recognised key with a well-typed or coercible value; distinct by hash of the sequence.",
		Notes:       []string{"never both spellings of one key in one payload (precedence unspecified)", "values whose coercion is not specified (non-integral numbers, numbers beyond 2^53) are used for totality only: the prediction for later probes is switched off for that sequence", "cli.path is never set to an existing program"},
		Cases:       c19Counts,
		MustObserve: []string{"events", "probes_compared", "payloads_ill_typed", "payloads_well_typed"},
		Setup:       func(c *Ctx) { c.State = &c19State{fx: c19Fixtures(filepath.Join(c.Dir, "c19fx"))} },
		RunCase:     runC19,
	})
}

func runC19(c *Ctx, idx int64) {
	st := c.State.(*c19State)
	r := c.RNG(idx, 0)
	fx := st.fx
	model := defaultCfgModel()
	predictable := true
	var trace []any
	nev := r.Range(1, 4)
	var initOpts any
	var classesAll []string
	if r.Chance(2, 3) {
		p, cl := cfgPayloadFull(r)
		initOpts = p
		classesAll = append(classesAll, cl...)
		predictable = model.apply(p) && predictable
		trace = append(trace, map[string]any{"initializationOptions": p})
	}
	var s *Session
	func() {
		defer func() {
			if p := recover(); p != nil {
				c.Violate(Violation{Kind: "crash", Sig: "C19:crash|" + topRepoFrame(string(debugStack())), Pool: "n/a", Detail: fmt.Sprintf("panic while initialising with %v: %v", CanonJSON(initOpts), p), Witness: map[string]any{"trace": trace}})
			}
		}()
		s = NewSession(fx.dir, SessOpt{InitOptions: initOpts, SupportsConfig: true})
	}()
	if s == nil {
		return
	}
	s.Drain()
	check := func(step int) bool {
		// capabilities are fixed at initialize
		obs := c19Probe(s, fx, fmt.Sprintf("-%d-%d", idx, step))
		c.Count("probes_compared", int64(len(obs)))
		if !predictable {
			c.Count("unpredicted_sequences_totality_only", 1)
			return true
		}
		want := model.predict()
		var keys []string
		for k := range want {
			keys = append(keys, k)
		}
		sort.Strings(keys)
		for _, k := range keys {
			if obs[k] != want[k] {
				kind := "not-effective(" + k + ")"
				c.Violate(Violation{Kind: kind, Sig: "C19:" + kind, Pool: "clean",
					Detail:  fmt.Sprintf("after event %d the probe %s observes %q, the settings model predicts %q (model %+v)", step, k, obs[k], want[k], model),
					Witness: map[string]any{"events": trace, "observed": obs, "predicted": want}})
				return false
			}
		}
		return true
	}
	// advertised capabilities
	if initOpts != nil && predictable && s.Init != nil {
		caps := s.Init.Capabilities
		got := map[string]bool{"hover": caps.HoverProvider != nil && caps.HoverProvider != false, "completion": caps.CompletionProvider != nil,
			"formatting": caps.DocumentFormattingProvider != nil && caps.DocumentFormattingProvider != false, "semanticTokens": caps.SemanticTokensProvider != nil,
			"foldingRanges": caps.FoldingRangeProvider != nil && caps.FoldingRangeProvider != false, "documentLinks": caps.DocumentLinkProvider != nil,
			"workspaceSymbol": caps.WorkspaceSymbolProvider != nil && caps.WorkspaceSymbolProvider != false, "codeActions": caps.CodeActionProvider != nil}
		want := map[string]bool{"hover": model.FHover, "completion": model.FCompletion, "formatting": model.FFormatting, "semanticTokens": model.FSemantic,
			"foldingRanges": model.FFolding, "documentLinks": model.FLinks, "workspaceSymbol": model.FWsSymbol, "codeActions": model.FCodeActions}
		for k, wv := range want {
			if got[k] != wv {
				c.Violate(Violation{Kind: "not-effective(capability)", Sig: "C19:not-effective(capability:" + k + ")", Pool: "clean",
					Detail: fmt.Sprintf("initializationOptions %s: capability %s advertised=%v, predicted %v", CanonJSON(initOpts), k, got[k], wv), Witness: map[string]any{"events": trace}})
				return
			}
		}
	}
	c.Count("events", 1)
	if !check(0) {
		return
	}
	for ev := 1; ev < nev; ev++ {
		p, cl := cfgPayloadFull(r)
		classesAll = append(classesAll, cl...)
		trace = append(trace, map[string]any{"didChangeConfiguration": p})
		predictable = model.apply(p) && predictable
		s.Stub.SetConfigAnswers(p)
		before := s.Stub.ConfigCalls()
		crashed := false
		func() {
			defer func() {
				if pv := recover(); pv != nil {
					crashed = true
					c.Violate(Violation{Kind: "crash", Sig: "C19:crash|" + topRepoFrame(string(debugStack())), Pool: "n/a", Detail: fmt.Sprintf("panic on configuration change %s: %v", CanonJSON(p), pv), Witness: map[string]any{"events": trace}})
				}
			}()
			s.Srv.DidChangeConfiguration(s.Ctx, nil)
		}()
		if crashed {
			return
		}
		for spin := 0; s.Stub.ConfigCalls() == before && spin < 400000; spin++ {
			if spin%2000 == 1999 {
				if g := ServerGoroutines(); g.Active == 0 {
					break
				}
			}
		}
		if ok, dump := s.Drain(); !ok || dump != "" {
			if dump != "" {
				c.Violate(Violation{Kind: "deadlock", Sig: "C19:deadlock", Pool: "n/a", Detail: "configuration refresh left goroutines blocked", Witness: map[string]any{"events": trace, "dump": trimStack(dump)}})
				return
			}
			c.Inconclusive("drain watchdog")
			return
		}
		c.Count("events", 1)
		if !check(ev) {
			return
		}
	}
	nt := false
	for _, cl := range classesAll {
		switch cl {
		case "well-typed", "coercible":
			nt = true
			c.Count("payloads_well_typed", 1)
		case "ill-typed", "non-object", "section-not-object":
			c.Count("payloads_ill_typed", 1)
		}
		c.Count("class:"+cl, 1)
	}
	if nt {
		c.Nontrivial(HashStr(CanonJSON(trace)))
	}
	if c.Rep.Evaluations%211 == 0 {
		c.Sample(map[string]any{"case": idx, "events": trace, "final_model": fmt.Sprintf("%+v", model), "predictable": predictable})
	}
}
