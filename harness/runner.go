package zv

import (
	"bufio"
	"encoding/binary"
	"encoding/json"
	"fmt"
	"os"
	"os/exec"
	"path/filepath"
	"regexp"
	"sort"
	"strconv"
	"strings"
	"syscall"
	"time"
)

type CheckOpts struct {
	Tier      string
	Seed      uint64
	Scratch   string // scratch root (removed by check.sh)
	KnownPath string
	Evidence  string // evidence file to write
	ReplayDir string
	SelfExe   string
	RaceExe   string // -race build of the same binary ("" = unavailable)
	WireExe   string // product binary
	Toolchain string
}

type shardState struct {
	idx      int
	cmd      *exec.Cmd
	report   string
	logPath  string
	from     int64
	restarts int
	retries  int
	done     bool
	start    time.Time
}

// RunCheck is the parent of a check: it never executes repository code itself.
func RunCheck(p *Prop, o CheckOpts) int {
	t0 := time.Now()
	kn, err := LoadKnown(o.KnownPath)
	if err != nil {
		fmt.Printf("INCONCLUSIVE property=%s %v\n", p.ID, err)
		return 2
	}
	n := p.Cases(o.Tier)
	nshards := 16
	if p.Shards != nil {
		if s := p.Shards(o.Tier); s > 0 {
			nshards = s
		}
	}
	if int64(nshards) > n {
		nshards = int(n)
	}
	if nshards < 1 {
		nshards = 1
	}
	exe := o.SelfExe
	if p.Race {
		if o.RaceExe == "" {
			fmt.Printf("INCONCLUSIVE property=%s race build unavailable\n", p.ID)
			return 2
		}
		exe = o.RaceExe
	}
	root := filepath.Join(o.Scratch, "run-"+p.ID)
	os.RemoveAll(root)
	os.MkdirAll(filepath.Join(root, "race"), 0o755)
	os.MkdirAll(filepath.Join(root, "home"), 0o755)

	merged := &ShardReport{Property: p.ID, Counters: map[string]int64{}, Sigs: map[string]*SigStat{}, hashes: map[uint64]struct{}{}}
	var inconclusive []string
	watchdog := 40 * time.Minute
	if o.Tier == "thorough" {
		watchdog = 6 * time.Hour
	}

	shards := make([]*shardState, nshards)
	launch := func(s *shardState) error {
		dir := filepath.Join(root, fmt.Sprintf("s%02d", s.idx))
		os.MkdirAll(dir, 0o755)
		s.report = filepath.Join(root, fmt.Sprintf("report-%02d-%d.json", s.idx, s.restarts))
		s.logPath = filepath.Join(root, fmt.Sprintf("log-%02d-%d.txt", s.idx, s.restarts))
		lf, err := os.Create(s.logPath)
		if err != nil {
			return err
		}
		cmd := exec.Command(exe, "shard", p.ID, o.Tier, strconv.FormatUint(o.Seed, 10),
			strconv.Itoa(s.idx), strconv.Itoa(nshards), strconv.FormatInt(s.from, 10), dir, s.report, o.KnownPath)
		cmd.Stdout = lf
		cmd.Stderr = lf
		cmd.Env = childEnv(root, s.idx, o)
		cmd.Dir = dir
		if err := cmd.Start(); err != nil {
			lf.Close()
			return err
		}
		lf.Close()
		s.cmd = cmd
		s.start = time.Now()
		return nil
	}
	type exitEv struct {
		s   *shardState
		err error
	}
	exits := make(chan exitEv, nshards*4)
	wait := func(s *shardState) {
		go func(cmd *exec.Cmd) { exits <- exitEv{s, cmd.Wait()} }(s.cmd)
	}
	running := 0
	for i := range shards {
		shards[i] = &shardState{idx: i}
		if err := launch(shards[i]); err != nil {
			fmt.Printf("INCONCLUSIVE property=%s cannot start shard: %v\n", p.ID, err)
			return 2
		}
		wait(shards[i])
		running++
	}
	timer := time.NewTimer(watchdog)
	for running > 0 {
		select {
		case ev := <-exits:
			running--
			s := ev.s
			rep, ok := readShardReport(s.report)
			if ok && rep.Done && ev.err == nil {
				mergeReport(merged, rep, s.report)
				s.done = true
				continue
			}
			// the child died: attribute to the journalled case
			last := readJournal(s.report + ".journal")
			if rep2, ok2 := readShardReport(s.report + ".partial"); ok2 {
				mergeReport(merged, rep2, "")
			}
			mergeViolStream(merged, s.report+".viol")
			logTail := tailFile(s.logPath, 12000)
			reason, site := classifyDeath(logTail, ev.err)
			if harnessStackCrash(tailFile(s.logPath, 200000)) && s.retries < 3 && last >= 0 {
				// the Go runtime crashed while the harness (not the repository) was taking a goroutine
				// dump for its quiescence check: the case says nothing yet, it is run again
				s.retries++
				merged.Counters["harness_stack_dump_crashes_retried"]++
				s.from = last
				if err := launch(s); err == nil {
					wait(s)
					running++
					continue
				}
			}
			if reason == "hang" {
				// wall-clock watchdog: inconclusive, never a verdict
				inconclusive = append(inconclusive, fmt.Sprintf("case %d exceeded the per-case wall-clock watchdog (goroutine dump in %s)", last, keepLog(o, p, s.logPath, last)))
				merged.Counters["case_watchdog_fired"]++
				if s.restarts < 25 && last >= 0 {
					s.restarts++
					s.from = last + int64(nshards)
					if s.from < n {
						if err := launch(s); err == nil {
							wait(s)
							running++
						}
					}
				}
				continue
			}
			v := Violation{Property: p.ID, Kind: "death", Sig: "death:" + reason + ":" + site, Pool: "n/a", Case: last,
				Detail:  fmt.Sprintf("shard child died (%v) while executing case %d: %s at %s", ev.err, last, reason, site),
				Witness: map[string]any{"log_tail": lastLines(logTail, 60)}}
			addViolation(merged, v)
			merged.Counters["child_deaths"]++
			if s.restarts < 25 && last >= 0 {
				s.restarts++
				s.from = last + int64(nshards)
				if s.from < n {
					if err := launch(s); err == nil {
						wait(s)
						running++
						continue
					}
				}
			} else {
				inconclusive = append(inconclusive, fmt.Sprintf("shard %d died too often", s.idx))
			}
		case <-timer.C:
			for _, s := range shards {
				if !s.done && s.cmd != nil && s.cmd.Process != nil {
					s.cmd.Process.Signal(syscall.SIGQUIT)
				}
			}
			time.Sleep(2 * time.Second)
			for _, s := range shards {
				if !s.done && s.cmd != nil && s.cmd.Process != nil {
					s.cmd.Process.Kill()
				}
			}
			inconclusive = append(inconclusive, fmt.Sprintf("wall-clock watchdog (%v) fired", watchdog))
			// drain
			for running > 0 {
				<-exits
				running--
			}
		}
	}
	timer.Stop()

	// race detector logs
	raceBlocks, harnessRaces := 0, 0
	if p.Race {
		blocks := readRaceLogs(filepath.Join(root, "race"))
		raceBlocks = len(blocks)
		for _, b := range blocks {
			fa, fb, repoBoth, repoAny := raceFrames(b)
			if !repoAny {
				harnessRaces++
				continue
			}
			_ = repoBoth
			pair := []string{fa, fb}
			sort.Strings(pair)
			v := Violation{Property: p.ID, Kind: "race", Sig: "race:" + pair[0] + "|" + pair[1], Pool: "n/a", Case: -1,
				Detail: "race detector report", Witness: map[string]any{"report": trimStack(b)}}
			addViolation(merged, v)
		}
		merged.Counters["race_reports"] += int64(raceBlocks)
		if harnessRaces > 0 {
			inconclusive = append(inconclusive, fmt.Sprintf("%d race reports with harness frames only (harness bug)", harnessRaces))
		}
	}
	merged.Inconclusive = append(merged.Inconclusive, inconclusive...)
	for _, name := range p.MustObserve {
		if merged.Counters[name] == 0 {
			merged.Inconclusive = append(merged.Inconclusive, "monitor observed nothing: counter "+name+" is zero")
		}
	}
	if len(merged.hashes) < 2 {
		merged.Inconclusive = append(merged.Inconclusive, "fewer than two distinct non-trivial cases")
	}

	// verdicts
	var sigs []string
	for sg := range merged.Sigs {
		sigs = append(sigs, sg)
	}
	sort.Strings(sigs)
	nviol, nknown := 0, 0
	var knownSeen []string
	var violOut []map[string]any
	for _, sg := range sigs {
		st := merged.Sigs[sg]
		if f := kn.Match(p.ID, sg); f != nil {
			nknown++
			knownSeen = append(knownSeen, sg)
			fmt.Printf("KNOWN-FINDING: property=%s sig=%s %s (seen %d×)\n", p.ID, sg, f.Text, st.Count)
			continue
		}
		nviol++
		path := writeReplay(o, p, st.First)
		fmt.Printf("VIOLATION property=%s replay=%s\n", p.ID, path)
		fmt.Printf("  sig=%s kind=%s count=%d case=%d\n  %s\n", sg, st.First.Kind, st.Count, st.First.Case, oneLine(st.First.Detail, 600))
		violOut = append(violOut, map[string]any{"sig": sg, "count": st.Count, "replay": path, "detail": oneLine(st.First.Detail, 400)})
	}
	wall := time.Since(t0).Seconds()
	writeEvidence(o, p, merged, n, nshards, wall, nviol, knownSeen, violOut, raceBlocks)
	for _, r := range merged.Inconclusive {
		fmt.Printf("INCONCLUSIVE property=%s %s\n", p.ID, r)
	}
	fmt.Printf("SUMMARY property=%s tier=%s seed=%d cases=%d nontrivial=%d violations=%d known=%d wall=%.1fs\n",
		p.ID, o.Tier, o.Seed, merged.Evaluations, len(merged.hashes), nviol, nknown, wall)
	keys := make([]string, 0, len(merged.Counters))
	for k := range merged.Counters {
		keys = append(keys, k)
	}
	sort.Strings(keys)
	var sb strings.Builder
	for _, k := range keys {
		fmt.Fprintf(&sb, " %s=%d", k, merged.Counters[k])
	}
	fmt.Printf("COUNTERS%s\n", sb.String())
	if nviol > 0 {
		return 1
	}
	if len(merged.Inconclusive) > 0 {
		return 2
	}
	return 0
}

func keepLog(o CheckOpts, p *Prop, logPath string, cs int64) string {
	os.MkdirAll(o.ReplayDir, 0o755)
	dst := filepath.Join(o.ReplayDir, fmt.Sprintf("%s-hang-case%d.log", p.ID, cs))
	if b, err := os.ReadFile(logPath); err == nil {
		if len(b) > 400000 {
			b = b[:400000]
		}
		os.WriteFile(dst, b, 0o644)
	}
	return dst
}

func oneLine(s string, n int) string {
	s = strings.ReplaceAll(s, "\n", "⏎")
	if len(s) > n {
		s = s[:n] + "…"
	}
	return s
}

func childEnv(root string, shard int, o CheckOpts) []string {
	var env []string
	for _, kv := range os.Environ() {
		k := kv
		if i := strings.IndexByte(kv, '='); i >= 0 {
			k = kv[:i]
		}
		switch k {
		case "LEDGER_FILE", "HLEDGER_JOURNAL", "HOME", "GORACE", "GOMAXPROCS", "GOTRACEBACK":
			continue
		}
		env = append(env, kv)
	}
	env = append(env, "HOME="+filepath.Join(root, "home"))
	env = append(env, "GOTRACEBACK=all")
	env = append(env, fmt.Sprintf("GORACE=halt_on_error=0 exitcode=0 history_size=3 log_path=%s", filepath.Join(root, "race", fmt.Sprintf("s%02d", shard))))
	env = append(env, "VERIF_WIRE_EXE="+o.WireExe)
	env = append(env, "VERIF_SELF_EXE="+o.SelfExe)
	return env
}

func readShardReport(path string) (*ShardReport, bool) {
	b, err := os.ReadFile(path)
	if err != nil {
		return nil, false
	}
	rep := &ShardReport{}
	if err := json.Unmarshal(b, rep); err != nil {
		return nil, false
	}
	if rep.Counters == nil {
		rep.Counters = map[string]int64{}
	}
	if rep.Sigs == nil {
		rep.Sigs = map[string]*SigStat{}
	}
	return rep, true
}

func mergeReport(m, r *ShardReport, hashBase string) {
	m.Evaluations += r.Evaluations
	for k, v := range r.Counters {
		m.Counters[k] += v
	}
	for sg, st := range r.Sigs {
		if cur := m.Sigs[sg]; cur != nil {
			cur.Count += st.Count
			if st.First.Case < cur.First.Case {
				cur.First = st.First
			}
		} else {
			cp := *st
			m.Sigs[sg] = &cp
		}
	}
	if len(m.Samples) < 5 {
		for _, s := range r.Samples {
			if len(m.Samples) < 5 {
				m.Samples = append(m.Samples, s)
			}
		}
	}
	m.Inconclusive = append(m.Inconclusive, r.Inconclusive...)
	if hashBase != "" {
		if hb, err := os.ReadFile(hashBase + ".hashes"); err == nil {
			for i := 0; i+8 <= len(hb); i += 8 {
				m.hashes[binary.LittleEndian.Uint64(hb[i:])] = struct{}{}
			}
		}
	}
}

func mergeViolStream(m *ShardReport, path string) {
	f, err := os.Open(path)
	if err != nil {
		return
	}
	defer f.Close()
	sc := bufio.NewScanner(f)
	sc.Buffer(make([]byte, 1<<20), 1<<26)
	for sc.Scan() {
		var v Violation
		if json.Unmarshal(sc.Bytes(), &v) == nil {
			addViolation(m, v)
		}
	}
}

func addViolation(m *ShardReport, v Violation) {
	st := m.Sigs[v.Sig]
	if st == nil {
		st = &SigStat{First: v}
		m.Sigs[v.Sig] = st
	}
	st.Count++
	m.Counters["violations"]++
}

func readJournal(path string) int64 {
	b, err := os.ReadFile(path)
	if err != nil || len(b) < 8 {
		return -1
	}
	return int64(binary.LittleEndian.Uint64(b))
}

func tailFile(path string, n int) string {
	b, err := os.ReadFile(path)
	if err != nil {
		return ""
	}
	// keep the head as well: Go prints the panic message first
	if len(b) > 2*n {
		return string(b[:n]) + "\n…\n" + string(b[len(b)-n:])
	}
	return string(b)
}

func lastLines(s string, n int) string {
	lines := strings.Split(s, "\n")
	if len(lines) > n {
		lines = lines[:n]
	}
	return strings.Join(lines, "\n")
}

var fatalRe = regexp.MustCompile(`(?m)^(panic: .*|fatal error: .*|VERIF-[A-Z-]+.*|runtime: .*out of memory.*)$`)

// harnessStackCrash recognises a fatal signal inside runtime.Stack(all) called by the harness: the
// faulting thread is unwinding other goroutines on behalf of zzverif, no repository code runs on it.
func harnessStackCrash(log string) bool {
	i := strings.Index(log, "SIGSEGV")
	if i < 0 {
		return false
	}
	head := log[i:]
	if j := strings.Index(head, "\ngoroutine "); j >= 0 {
		// first goroutine block after the signal line = the faulting one (goroutine 0 / system stack)
		k := strings.Index(head[j+1:], "\n\n")
		blk := head
		if k >= 0 {
			blk = head[:j+1+k]
		}
		if strings.Contains(blk, "runtime.tracebackothers") && strings.Contains(blk, "runtime.Stack") {
			// and the goroutine that asked for the dump is the harness
			rest := head[len(blk):]
			if m := strings.Index(rest, "[running]"); m >= 0 {
				run := rest[m:]
				if e := strings.Index(run, "\n\n"); e >= 0 {
					run = run[:e]
				}
				return strings.Contains(run, "runtime.Stack") && strings.Contains(run, "internal/zzverif.")
			}
		}
	}
	return false
}

func classifyDeath(log string, err error) (reason, site string) {
	reason = "exit"
	if m := fatalRe.FindString(log); m != "" {
		switch {
		case strings.HasPrefix(m, "panic:"):
			reason = "panic"
		case strings.Contains(m, "all goroutines are asleep"):
			reason = "deadlock"
		case strings.Contains(m, "out of memory") || strings.Contains(m, "VERIF-RSS-CAP"):
			reason = "memory"
		case strings.Contains(m, "VERIF-CPU-CAP"):
			reason = "cpu"
		case strings.Contains(m, "VERIF-DEADLOCK"):
			reason = "deadlock"
		case strings.Contains(m, "VERIF-HANG"):
			reason = "hang"
		case strings.Contains(m, "stack overflow") || strings.Contains(m, "stack exceeds"):
			reason = "stack-overflow"
		default:
			reason = "fatal"
		}
	} else if err != nil && strings.Contains(err.Error(), "signal") {
		reason = "signal"
	}
	site = topRepoFrame(log)
	return
}

func readRaceLogs(dir string) []string {
	var blocks []string
	ents, _ := os.ReadDir(dir)
	for _, e := range ents {
		b, err := os.ReadFile(filepath.Join(dir, e.Name()))
		if err != nil {
			continue
		}
		parts := strings.Split(string(b), "==================")
		for _, part := range parts {
			if strings.Contains(part, "WARNING: DATA RACE") {
				blocks = append(blocks, part)
			}
		}
	}
	return blocks
}

// raceFrames returns the innermost repository frame of each of the two conflicting accesses.
func raceFrames(block string) (a, b string, repoBoth, repoAny bool) {
	// sections start with "Read at", "Write at", "Previous read at", "Previous write at"
	lines := strings.Split(block, "\n")
	var secs [][]string
	var cur []string
	flush := func() {
		if cur != nil {
			secs = append(secs, cur)
		}
		cur = nil
	}
	for _, l := range lines {
		t := strings.TrimSpace(l)
		low := strings.ToLower(t)
		if strings.HasPrefix(low, "read at") || strings.HasPrefix(low, "write at") || strings.HasPrefix(low, "previous read at") ||
			strings.HasPrefix(low, "previous write at") || strings.HasPrefix(low, "atomic") || strings.HasPrefix(low, "previous atomic") {
			flush()
			cur = []string{}
			continue
		}
		if strings.HasPrefix(t, "Goroutine ") {
			flush()
			continue
		}
		if cur != nil {
			cur = append(cur, t)
		}
	}
	flush()
	frame := func(sec []string) string {
		for _, l := range sec {
			if strings.HasPrefix(l, repoMod) && !strings.Contains(l, "internal/zzverif") {
				if i := strings.LastIndex(l, "("); i > 0 {
					l = l[:i]
				}
				return strings.TrimPrefix(l, repoMod)
			}
		}
		return ""
	}
	if len(secs) >= 1 {
		a = frame(secs[0])
	}
	if len(secs) >= 2 {
		b = frame(secs[1])
	}
	repoAny = a != "" || b != ""
	repoBoth = a != "" && b != ""
	if a == "" {
		a = "harness"
	}
	if b == "" {
		b = "harness"
	}
	return
}

func writeReplay(o CheckOpts, p *Prop, v Violation) string {
	os.MkdirAll(o.ReplayDir, 0o755)
	name := fmt.Sprintf("%s-%016x.json", p.ID, HashStr(v.Sig))
	path := filepath.Join(o.ReplayDir, name)
	doc := map[string]any{"property": p.ID, "tier": o.Tier, "seed": o.Seed, "case": v.Case, "violation": v}
	b, _ := json.MarshalIndent(doc, "", " ")
	os.WriteFile(path, b, 0o644)
	return path
}

func writeEvidence(o CheckOpts, p *Prop, m *ShardReport, planned int64, nshards int, wall float64, nviol int, known []string, viol []map[string]any, raceBlocks int) {
	samples := m.Samples
	if len(samples) == 0 {
		samples = []any{"(no sample recorded)"}
	}
	exh := false
	if p.Exhaustive != nil {
		exh = p.Exhaustive(o.Tier)
	}
	cov := map[string]any{
		"evaluations":         m.Evaluations,
		"distinct_nontrivial": len(m.hashes),
		"rule":                p.Rule,
		"samples":             samples,
		"exhaustive":          exh,
		"planned_cases":       planned,
		"shards":              nshards,
		"monitor_counters":    m.Counters,
		"known_findings_seen": known,
		"unlisted_violations": viol,
		"inconclusive":        m.Inconclusive,
		"toolchain":           o.Toolchain,
	}
	if p.Race {
		cov["race_detector_blocks"] = raceBlocks
	}
	tier := tierOf(o.Tier)
	ev := map[string]any{
		"property_id": p.ID,
		"tier":        tier,
		"seed":        int64(o.Seed),
		"level":       "exploration",
		"coverage":    cov,
		"assumptions": p.Notes,
		"wall_s":      wall,
		"violations":  nviol,
	}
	b, _ := json.MarshalIndent(ev, "", " ")
	os.MkdirAll(filepath.Dir(o.Evidence), 0o755)
	os.WriteFile(o.Evidence, b, 0o644)
}

// RunReplay re-executes one recorded case in this process.
func RunReplay(path, knownPath, scratch string) int {
	b, err := os.ReadFile(path)
	if err != nil {
		fmt.Println(err)
		return 2
	}
	var doc struct {
		Property string `json:"property"`
		Tier     string `json:"tier"`
		Seed     uint64 `json:"seed"`
		Case     int64  `json:"case"`
	}
	if err := json.Unmarshal(b, &doc); err != nil {
		fmt.Println(err)
		return 2
	}
	p := Lookup(doc.Property)
	if p == nil {
		fmt.Println("unknown property", doc.Property)
		return 2
	}
	if doc.Case < 0 {
		fmt.Println("this witness is not tied to a single case (race report); re-run the check")
		return 2
	}
	kn, _ := LoadKnown(knownPath)
	dir := filepath.Join(scratch, "replay")
	os.MkdirAll(dir, 0o755)
	os.Setenv("HOME", dir)
	os.Unsetenv("LEDGER_FILE")
	os.Unsetenv("HLEDGER_JOURNAL")
	rep := &ShardReport{Property: p.ID, Counters: map[string]int64{}, Sigs: map[string]*SigStat{}, hashes: map[uint64]struct{}{}}
	c := &Ctx{Prop: p, Tier: doc.Tier, Seed: doc.Seed, Dir: dir, Known: kn, Rep: rep, Replay: true, NShards: 1}
	if p.Setup != nil {
		p.Setup(c)
	}
	c.curCase = doc.Case
	runCaseRecover(c, doc.Case)
	if p.Finish != nil {
		p.Finish(c)
	}
	if len(rep.Sigs) == 0 {
		fmt.Printf("REPLAY property=%s case=%d: no violation on this tree\n", p.ID, doc.Case)
		return 0
	}
	return 1
}
