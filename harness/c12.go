package zv

import (
	"fmt"
	"os"
	"path/filepath"
	"sort"
	"strings"

	"github.com/juev/hledger-lsp/internal/analyzer"
	"github.com/juev/hledger-lsp/internal/include"
	"github.com/juev/hledger-lsp/internal/workspace"
)

// C12 Incrementally maintained workspace view equals a rebuild.

type wsView struct {
	fields map[string]string
	// payee -> the template found, and the set a fresh initialisation may produce
	templates map[string]string
}

func tmplStr(ts []analyzer.PostingTemplate) string {
	var parts []string
	for _, t := range ts {
		parts = append(parts, fmt.Sprintf("%s|%s|%s|%v", t.Account, t.Amount, t.Commodity, t.CommodityLeft))
	}
	return strings.Join(parts, ";")
}

func sortedCopy(s []string) []string {
	c := append([]string(nil), s...)
	sort.Strings(c)
	return c
}

func mapIntStr(m map[string]int) string {
	var ks []string
	for k, v := range m {
		ks = append(ks, fmt.Sprintf("%s=%d", k, v))
	}
	sort.Strings(ks)
	return strings.Join(ks, ",")
}

func viewOf(ws *workspace.Workspace, dir string) wsView {
	v := wsView{fields: map[string]string{}, templates: map[string]string{}}
	rel := func(p string) string { return strings.TrimPrefix(p, dir+"/") }
	snap := ws.IndexSnapshot()
	res := ws.GetResolved()
	var members []string
	if res != nil {
		for p := range res.Files {
			members = append(members, rel(p))
		}
		if res.Primary != nil {
			members = append(members, "<root>")
		}
	}
	sort.Strings(members)
	v.fields["members"] = strings.Join(members, ",")
	if res != nil {
		var order []string
		for _, p := range res.FileOrder {
			order = append(order, rel(p))
		}
		// the order in which a resolution visits the member files (directives and transactions
		// are concatenated in it: later declarations override earlier ones)
		v.fields["fileOrder"] = strings.Join(order, ",")
	}
	if snap.Accounts != nil {
		v.fields["accounts"] = strings.Join(sortedCopy(snap.Accounts.All), ",")
		var bp []string
		for k, vs := range snap.Accounts.ByPrefix {
			bp = append(bp, k+"=>"+strings.Join(sortedCopy(vs), "+"))
		}
		sort.Strings(bp)
		v.fields["accountsByPrefix"] = strings.Join(bp, ",")
	}
	v.fields["payees"] = strings.Join(sortedCopy(snap.Payees), ",")
	v.fields["commodities"] = strings.Join(sortedCopy(snap.Commodities), ",")
	v.fields["tags"] = strings.Join(sortedCopy(snap.Tags), ",")
	v.fields["dates"] = strings.Join(sortedCopy(snap.Dates), ",")
	var tv []string
	for k, vs := range snap.TagValues {
		tv = append(tv, k+"=>"+strings.Join(sortedCopy(vs), "+"))
	}
	sort.Strings(tv)
	v.fields["tagValues"] = strings.Join(tv, ",")
	v.fields["accountCounts"] = mapIntStr(snap.AccountCounts)
	v.fields["payeeCounts"] = mapIntStr(snap.PayeeCounts)
	v.fields["commodityCounts"] = mapIntStr(snap.CommodityCounts)
	v.fields["tagCounts"] = mapIntStr(snap.TagCounts)
	var tvc []string
	for k, m := range snap.TagValueCounts {
		tvc = append(tvc, k+"=>{"+mapIntStr(m)+"}")
	}
	sort.Strings(tvc)
	v.fields["tagValueCounts"] = strings.Join(tvc, ",")
	var tx []string
	for k, es := range snap.Transactions {
		var ent []string
		for _, e := range es {
			ent = append(ent, fmt.Sprintf("%s@%d-%d", rel(e.FilePath), e.Range.Start.Line, e.Range.End.Line))
		}
		sort.Strings(ent)
		tx = append(tx, k+"=>"+strings.Join(ent, "+"))
	}
	sort.Strings(tx)
	v.fields["transactionIndex"] = strings.Join(tx, "\n")
	var da []string
	for k := range ws.GetDeclaredAccounts() {
		da = append(da, k)
	}
	sort.Strings(da)
	v.fields["declaredAccounts"] = strings.Join(da, ",")
	var dc []string
	for k := range ws.GetDeclaredCommodities() {
		dc = append(dc, k)
	}
	sort.Strings(dc)
	v.fields["declaredCommodities"] = strings.Join(dc, ",")
	var cf []string
	for k, f := range ws.GetCommodityFormats() {
		cf = append(cf, fmt.Sprintf("%s=%c|%s|%d|%v", k, f.DecimalMark, f.ThousandsSep, f.DecimalPlaces, f.HasDecimal))
	}
	sort.Strings(cf)
	v.fields["commodityFormats"] = strings.Join(cf, ",")
	for p, t := range snap.PayeeTemplates {
		v.templates[p] = tmplStr(t)
	}
	return v
}

// fileTemplates: per payee the templates each member file would contribute.
func memberTemplates(ws *workspace.Workspace) map[string]map[string]bool {
	out := map[string]map[string]bool{}
	res := ws.GetResolved()
	if res == nil {
		return out
	}
	add := func(m map[string][]analyzer.PostingTemplate) {
		for p, t := range m {
			if out[p] == nil {
				out[p] = map[string]bool{}
			}
			out[p][tmplStr(t)] = true
		}
	}
	if res.Primary != nil {
		add(analyzer.CollectPayeeTemplates(res.Primary))
	}
	for _, j := range res.Files {
		add(analyzer.CollectPayeeTemplates(j))
	}
	return out
}

type c12Update struct {
	File    int    `json:"file"`
	Variant int    `json:"variant"`
	Text    string `json:"-"`
}

func c12Counts(tier string) int64 {
	if tier == "thorough" {
		return 200000
	}
	return 12000
}

func init() {
	Register(&Prop{
		ID:          "C12",
		Rule:        "workspaces of 2-5 files (main.journal root, include directives chosen per content variant) whose files are journals from G drawn from shared account/payee/commodity/tag pools; update sequences of length <= 8, each replacing one file on disk by another variant (other entries and possibly another include list: edges added/removed or merely re-ordered, files becoming unreachable/reachable again) followed by Workspace.UpdateFile. After EVERY step the incremental workspace is compared with a fresh workspace + fresh loader initialised on the same disk state: member files and their resolution order, accounts (+by prefix), payees, commodities, tags, tag values, dates, all count maps, tag-value counts, transaction index (per key the multiset of file+range), declared accounts/commodities, commodity formats; payee templates must be one of the templates a member file provides. Getters are called after every step, so caches are warm before the next update. Non-trivial = sequence with >=1 update that changes an include list; distinct by hash of the sequence.",
		Notes:       []string{"where a fresh initialisation is itself ambiguous (same payee with different templates in two files) any member file's template is accepted", "files are rendered from the clean pool of G (C03 findings excluded)"},
		Cases:       c12Counts,
		MustObserve: []string{"updates", "views_compared", "updates_changing_includes"},
		Setup:       func(c *Ctx) { c.State = c.Known.BadFeatureSets("C03", "C12") },
		RunCase:     runC12,
	})
}

func runC12(c *Ctx, idx int64) {
	bad := c.State.([][]string)
	r := c.RNG(idx, 0)
	nfiles := r.Range(2, 5)
	names := []string{"main.journal", "a.journal", "b.journal", "sub/c.journal", "d.journal"}[:nfiles]
	g := NewGen(r, bad)
	g.NoInclude = true
	// variants per file
	variants := make([][]string, nfiles)
	incl := make([][][]int, nfiles)
	for f := 0; f < nfiles; f++ {
		nv := 4
		for v := 0; v < nv; v++ {
			var sb strings.Builder
			var inc []int
			for t := 1; t < nfiles; t++ {
				if t == f {
					continue
				}
				p := 3
				if f == 0 {
					p = 5
				}
				if r.Chance(p, 10) {
					inc = append(inc, t)
				}
			}
			// every second variant repeats the previous include set in another order (directive order
			// decides the resolved file order, which decides whose format/template wins)
			if v%2 == 1 && len(incl[f][v-1]) >= 2 {
				prev := incl[f][v-1]
				inc = nil
				for _, k := range r.Perm(len(prev)) {
					inc = append(inc, prev[k])
				}
			}
			for _, t := range inc {
				relp := names[t]
				if strings.HasPrefix(names[f], "sub/") {
					relp = "../" + names[t]
				}
				fmt.Fprintf(&sb, "include %s\n", relp)
			}
			if len(inc) > 0 {
				sb.WriteString("\n")
			}
			j := g.Journal(r.Range(2, 5))
			j.EOL, j.FinalNewline = "\n", true
			sb.WriteString(j.Render().Text)
			variants[f] = append(variants[f], sb.String())
			incl[f] = append(incl[f], inc)
		}
	}
	dir := filepath.Join(c.Dir, fmt.Sprintf("w%d", idx))
	defer os.RemoveAll(dir)
	write := func(f, v int) string {
		p := filepath.Join(dir, names[f])
		os.MkdirAll(filepath.Dir(p), 0o755)
		os.WriteFile(p, []byte(variants[f][v]), 0o644)
		return p
	}
	cur := make([]int, nfiles)
	for f := 0; f < nfiles; f++ {
		write(f, 0)
	}
	loader := include.NewLoader()
	ws := workspace.NewWorkspace(dir, loader)
	if err := ws.Initialize(); err != nil {
		c.Inconclusive("initialize: " + err.Error())
		return
	}
	viewOf(ws, dir) // warm the caches
	nsteps := r.Range(1, 8)
	var trace []string
	changedInc := false
	for step := 0; step < nsteps; step++ {
		f := r.Intn(nfiles)
		v := r.Intn(len(variants[f]))
		if r.Chance(1, 8) {
			v = cur[f] // the same content set again
		}
		if fmt.Sprint(incl[f][v]) != fmt.Sprint(incl[f][cur[f]]) {
			changedInc = true
			c.Count("updates_changing_includes", 1)
		}
		cur[f] = v
		p := write(f, v)
		ws.UpdateFile(p, variants[f][v])
		loader.InvalidateFile(p)
		trace = append(trace, fmt.Sprintf("%s:=v%d(includes %v)", names[f], v, incl[f][v]))
		c.Count("updates", 1)
		got := viewOf(ws, dir)
		fresh := workspace.NewWorkspace(dir, include.NewLoader())
		fresh.Initialize()
		want := viewOf(fresh, dir)
		c.Count("views_compared", 1)
		witness := func(field string) map[string]any {
			files := map[string]string{}
			for i, n := range names {
				files[n] = variants[i][cur[i]]
			}
			return map[string]any{"updates": trace, "files_now": files, "field": field, "incremental": oneLine(got.fields[field], 1500), "rebuild": oneLine(want.fields[field], 1500)}
		}
		var fields []string
		for k := range want.fields {
			fields = append(fields, k)
		}
		sort.Strings(fields)
		for _, k := range fields {
			if got.fields[k] != want.fields[k] {
				c.Violate(Violation{Kind: "differs-from-rebuild", Sig: "C12:differs-from-rebuild(" + k + ")", Pool: "clean",
					Detail:  fmt.Sprintf("after update %d (%s) the incremental %s differs from a rebuild", step, trace[len(trace)-1], k),
					Witness: witness(k)})
				return
			}
		}
		// payee templates: same payees, and each template is one a member file provides
		may := memberTemplates(fresh)
		for p := range want.templates {
			if _, ok := got.templates[p]; !ok {
				c.Violate(Violation{Kind: "differs-from-rebuild", Sig: "C12:differs-from-rebuild(payeeTemplates:missing)", Pool: "clean",
					Detail:  fmt.Sprintf("after update %d (%s) payee %q has no template in the incremental view but a rebuild has one", step, trace[len(trace)-1], p),
					Witness: map[string]any{"updates": trace, "payee": p, "rebuild": want.templates[p]}})
				return
			}
		}
		for p, t := range got.templates {
			if _, ok := want.templates[p]; !ok {
				c.Violate(Violation{Kind: "differs-from-rebuild", Sig: "C12:differs-from-rebuild(payeeTemplates:extra)", Pool: "clean",
					Detail:  fmt.Sprintf("after update %d (%s) payee %q has a template in the incremental view but not after a rebuild", step, trace[len(trace)-1], p),
					Witness: map[string]any{"updates": trace, "payee": p, "incremental": t}})
				return
			}
			if !may[p][t] {
				c.Violate(Violation{Kind: "differs-from-rebuild", Sig: "C12:differs-from-rebuild(payeeTemplates:stale)", Pool: "clean",
					Detail:  fmt.Sprintf("after update %d (%s) the template of payee %q is not provided by any member file", step, trace[len(trace)-1], p),
					Witness: map[string]any{"updates": trace, "payee": p, "incremental": t}})
				return
			}
		}
	}
	if changedInc {
		c.Nontrivial(HashStr(fmt.Sprintf("%d|%s", idx, strings.Join(trace, ";"))))
	}
	if c.Rep.Evaluations%199 == 0 {
		c.Sample(map[string]any{"case": idx, "files": names, "updates": trace})
	}
}
