package zv

import (
	"context"
	"fmt"
	"os"
	"path/filepath"
	"sort"
	"strings"

	"go.lsp.dev/protocol"

	"github.com/juev/hledger-lsp/internal/ast"
	"github.com/juev/hledger-lsp/internal/include"
)

// C11 Include loading is independent of cache history.

// loadFingerprint is a canonical rendering of what a load produced.
func loadFingerprint(dir string, res *include.ResolvedJournal, errs []include.LoadError, rootPath string) string {
	var sb strings.Builder
	rel := func(p string) string { return strings.TrimPrefix(p, dir+"/") }
	jf := func(j *ast.Journal) string {
		if j == nil {
			return "<nil>"
		}
		var parts []string
		for _, inc := range j.Includes {
			parts = append(parts, "inc:"+inc.Path)
		}
		for _, t := range j.Transactions {
			s := "tx:" + t.Description
			for _, p := range t.Postings {
				s += "|" + p.Account.Name
				if p.Amount != nil {
					s += "=" + p.Amount.Quantity.String() + p.Amount.Commodity.Symbol
				}
			}
			parts = append(parts, s)
		}
		for _, d := range j.Directives {
			parts = append(parts, fmt.Sprintf("dir:%T", d))
		}
		return strings.Join(parts, ";")
	}
	if res == nil {
		sb.WriteString("result:nil\n")
	} else {
		sb.WriteString("primary:" + jf(res.Primary) + "\n")
		var ks []string
		for p := range res.Files {
			ks = append(ks, p)
		}
		sort.Strings(ks)
		for _, p := range ks {
			sb.WriteString("file:" + rel(p) + ":" + jf(res.Files[p]) + "\n")
		}
		var ord []string
		for _, p := range res.FileOrder {
			ord = append(ord, rel(p))
		}
		sb.WriteString("order:" + strings.Join(ord, ",") + "\n")
	}
	var es []string
	for _, e := range errs {
		es = append(es, fmt.Sprintf("err:%d:%s:%d:%s", e.Kind, rel(e.Path), e.Range.Start.Line, strings.ReplaceAll(e.Message, dir+"/", "")))
	}
	sort.Strings(es)
	sb.WriteString(strings.Join(es, "\n"))
	return sb.String()
}

type c11Op struct {
	Kind string `json:"op"` // load edit-invalidate edit-clear clear
	Root int    `json:"root,omitempty"`
	File int    `json:"file,omitempty"`
	Row  uint32 `json:"row,omitempty"` // new include row (bit j = includes f_j) of the edited file
}

func (o c11Op) String() string {
	switch o.Kind {
	case "load":
		return fmt.Sprintf("load(f%d)", o.Root)
	case "load-buffer":
		return fmt.Sprintf("loadFromContent(f%d,unsaved)", o.Root)
	case "clear":
		return "clear"
	case "rewrite-samestamp-invalidate":
		return fmt.Sprintf("%s(f%d)", o.Kind, o.File)
	}
	return fmt.Sprintf("%s(f%d,row=%04b)", o.Kind, o.File, o.Row)
}

// c11Graphs: fixed base graphs with chains >= 3 deep, diamonds, cycles through depth 2.
var c11Graphs = []uint32{
	0x0002 | 0x0040 | 0x0800,                   // chain 0>1>2>3
	0x0006 | 0x0080 | 0x0800,                   // 0>1,0>2,1>3,2>3 diamond
	0x0002 | 0x0040 | 0x0100,                   // 0>1>2>0 cycle
	0x0002 | 0x0040 | 0x0200,                   // 0>1>2>1 cycle below the root
	0x000e,                                     // star
	0x0002 | 0x00c0,                            // 0>1, 1>2, 1>3
	0x0006 | 0x0040,                            // 0>1,0>2,1>2 (diamond with shortcut)
	0x0002 | 0x0040 | 0x0800 | 0x2000,          // chain with back edge 3>1
	0x0002 | 0x0020,                            // 0>1, 1>1 self loop
	0x0004 | 0x0800 | 0x0080,                   // 0>2,2>3,1>3
	0x000a | 0x0040 | 0x0800,                   // 0>1,0>3,1>2,2>3
	0x0002 | 0x0040 | 0x0800 | 0x1000,          // chain + 3>0
	0x0006 | 0x0080 | 0x0800 | 0x4000,          // diamond + 3>2
	0x0002,                                     // 0>1
	0x0000,                                     // no includes
	0x0002 | 0x0010,                            // 0>1>0
	0x000e | 0x0040 | 0x0800,                   // star + 1>2 + 2>3
	0x0008 | 0x2000 | 0x0040,                   // 0>3,3>1,1>2
	0x0002 | 0x00c0 | 0x0800,                   // 0>1,1>2,1>3,2>3
	0x0004 | 0x0200 | 0x0080,                   // 0>2,2>1,1>3
	0x0006 | 0x0040 | 0x0800 | 0x0080,          // dense dag
	0x0002 | 0x0040 | 0x0400,                   // 0>1>2>2
	0x0002 | 0x0080 | 0x4000 | 0x0200,          // 0>1>3>2>1
	0x0004 | 0x0100,                            // 0>2>0
	0x0006 | 0x0090,                            // 0>1,0>2,1>0,1>3
	0x000e | 0x8000,                            // star + 3>3
	0x0002 | 0x0040 | 0x0800 | 0x0008,          // chain + 0>3
	0x0002 | 0x0004 | 0x0040 | 0x0200,          // 0>1,0>2,1>2,2>1
	0x0008 | 0x4000 | 0x0200,                   // 0>3>2>1
	0x0002 | 0x0040 | 0x0800 | 0x2000 | 0x0100, // chain + 3>1 + 2>0
}

func c11Counts(tier string) (enum, random, server int64) {
	if tier == "thorough" {
		return int64(len(c11Graphs)) * 340, 300000, 6000
	}
	return 3000, 5000, 400
}

var c11Alphabet = []string{"load", "edit-invalidate", "edit-clear", "clear"}

// random histories also use unsaved buffers (LoadFromContent) and small depth limits
var c11AlphabetExt = []string{"load", "load", "edit-invalidate", "edit-clear", "clear", "load-buffer", "rewrite-samestamp-invalidate"}

func init() {
	Register(&Prop{
		ID:    "C11",
		Rule:  "histories of load(root_i) / edit a file (new include row and content) + InvalidateFile / edit without invalidation followed by ClearCache / ClearCache (random histories also: LoadFromContent of an unsaved buffer, a rewrite with other text of the same byte length and the modification time put back + InvalidateFile, and depth limits 1-4 set on both loaders) on ONE shared loader over 30 fixed 4-file include graphs (chains >= 3 deep, diamonds, cycles below the root); after every load the result (file set, file order, content projection of every journal, load errors with their directive lines, parse errors of included files (a third of the file versions has syntax errors)) is compared with a fresh loader on the same disk state. All histories of length <= 4 over the 4-operation alphabet are enumerated per graph (thorough: all 30 graphs x 340; quick: a seeded slice), random histories of length 5-6 beyond; server level: open / save included file / change sequences followed by references and completion probes compared with a fresh server on the same disk state. Non-trivial = history containing a load after an edit or a second load; distinct by history+graph hash.",
		Notes: []string{"parse errors of included files are excluded (the server drops them)", "every history ends with a load so that its effect is observed"},
		Cases: func(tier string) int64 {
			a, b, s := c11Counts(tier)
			return a + b + s
		},
		MustObserve: []string{"histories", "loads_compared", "loads_after_edit", "same_stamp_rewrites"},
		RunCase:     runC11,
	})
}

func c11WriteFile(g *incGraph, dir string, i int, ver int) { c11WriteFileFlip(g, dir, i, ver, 0) }

// c11WriteFileFlip: flip changes one letter of the marker account and nothing else, so that two
// flips of one version have the same byte length
func c11WriteFileFlip(g *incGraph, dir string, i int, ver int, flip int) {
	p := filepath.Join(dir, g.fileName(i))
	var sb strings.Builder
	for k := 0; k < i*igLineStep; k++ {
		fmt.Fprintf(&sb, "; file %d pad %d\n", i, k)
	}
	for j := 0; j < g.N; j++ {
		if g.Adj[i][j] {
			fmt.Fprintf(&sb, "include %s\n", g.fileName(j))
		}
	}
	fmt.Fprintf(&sb, "\n2019-01-0%d marker f%d v%d\n    m:f%d:v%d:%c  %d USD\n    assets:cash\n", i+1, i, ver, i, ver, 'a'+rune(flip%26), ver+1)
	if (i+ver)%3 == 1 {
		// some versions of some files carry syntax errors: they are part of the result (diagnostics)
		fmt.Fprintf(&sb, "\n2019-02-0%d broken f%d v%d\n    m:broken  1 USD @@\n    assets:cash  = = 3\n", i+1, i, ver)
	}
	os.WriteFile(p, []byte(sb.String()), 0o644)
}

// c11RewriteSameStamp rewrites file i with other text of the same byte length and puts the
// modification time back (cp -p, rsync -t, a coarse file-system clock): size and mtime say
// "unchanged", the content is not. Returns false when the disk did not cooperate.
func c11RewriteSameStamp(g *incGraph, dir string, i int, ver int, flip int) bool {
	p := filepath.Join(dir, g.fileName(i))
	before, err := os.Stat(p)
	if err != nil {
		return false
	}
	c11WriteFileFlip(g, dir, i, ver, flip)
	os.Chtimes(p, before.ModTime(), before.ModTime())
	after, err := os.Stat(p)
	return err == nil && after.Size() == before.Size() && after.ModTime().Equal(before.ModTime())
}

func runC11(c *Ctx, idx int64) {
	a, b, _ := c11Counts(c.Tier)
	if idx >= a+b {
		c11Server(c, idx)
		return
	}
	r := c.RNG(idx, 0)
	var gi int
	var ops []c11Op
	mkOp := func(kind string) c11Op {
		o := c11Op{Kind: kind}
		switch kind {
		case "load", "load-buffer":
			o.Root = r.Intn(3)
			if r.Chance(2, 3) {
				o.Root = 0
			}
		case "edit-invalidate", "edit-clear":
			o.File = r.Intn(4)
			o.Row = uint32(r.Intn(16))
		case "rewrite-samestamp-invalidate":
			o.File = r.Intn(4)
		}
		return o
	}
	if idx < a {
		// enumerated histories: index -> (graph, length, word)
		k := idx
		if c.Tier != "thorough" {
			k = (idx*7 + int64(c.Seed)*131) % (int64(len(c11Graphs)) * 340)
		}
		gi = int(k / 340)
		w := int(k % 340)
		length := 1
		for n := 4; w >= n; n *= 4 {
			w -= n
			length++
		}
		for i := 0; i < length; i++ {
			ops = append(ops, mkOp(c11Alphabet[w%4]))
			w /= 4
		}
	} else {
		gi = r.Intn(len(c11Graphs))
		n := r.Range(5, 6)
		for i := 0; i < n; i++ {
			ops = append(ops, mkOp(Pick(r, c11AlphabetExt)))
		}
	}
	limits := include.DefaultLimits()
	if idx >= a && r.Chance(1, 2) {
		limits.MaxIncludeDepth = r.Range(1, 4)
	}
	ops = append(ops, c11Op{Kind: "load", Root: 0})
	dir := filepath.Join(c.Dir, fmt.Sprintf("h%d", idx))
	os.MkdirAll(dir, 0o755)
	defer os.RemoveAll(dir)
	g := graphFromBits(c11Graphs[gi], 4)
	vers := make([]int, 4)
	flips := make([]int, 4)
	for i := 0; i < 4; i++ {
		c11WriteFile(g, dir, i, 0)
	}
	// warm the shared loader like a server that has been running for a while
	shared := include.NewLoader()
	shared.SetLimits(limits)
	shared.Load(filepath.Join(dir, g.fileName(0)))
	var trace []string
	edited := false
	nloads := 0
	interesting := false
	for step, o := range ops {
		trace = append(trace, o.String())
		switch o.Kind {
		case "clear":
			shared.ClearCache()
		case "edit-invalidate", "edit-clear":
			for j := 0; j < 4; j++ {
				g.Adj[o.File][j] = o.Row&(1<<uint(j)) != 0
			}
			vers[o.File]++
			c11WriteFileFlip(g, dir, o.File, vers[o.File], flips[o.File])
			if o.Kind == "edit-invalidate" {
				shared.InvalidateFile(filepath.Join(dir, g.fileName(o.File)))
			} else {
				shared.ClearCache()
			}
			edited = true
		case "rewrite-samestamp-invalidate":
			// other content, same size, same modification time: an invalidated file is read again
			// whatever its stamp says
			flips[o.File]++
			if c11RewriteSameStamp(g, dir, o.File, vers[o.File], flips[o.File]) {
				c.Count("same_stamp_rewrites", 1)
			}
			shared.InvalidateFile(filepath.Join(dir, g.fileName(o.File)))
			edited = true
		case "load-buffer":
			// an open document with unsaved edits is resolved from its buffer; nothing else may
			// ever see that text
			root := filepath.Join(dir, g.fileName(o.Root))
			disk, _ := os.ReadFile(root)
			buf := string(disk) + fmt.Sprintf("\n2019-02-02 unsaved %d\n    m:unsaved  1 USD\n    assets:cash\n", step)
			res, errs := shared.LoadFromContent(root, buf)
			fl := include.NewLoader()
			fl.SetLimits(limits)
			fres, ferrs := fl.LoadFromContent(root, buf)
			c.Count("buffer_loads_compared", 1)
			if got, want := loadFingerprint(dir, res, errs, root), loadFingerprint(dir, fres, ferrs, root); got != want {
				c.Violate(Violation{Kind: "differs-from-fresh", Sig: "C11:differs-from-fresh(buffer-load)", Pool: "clean",
					Detail:  fmt.Sprintf("step %d %s on the shared loader differs from a fresh loader", step, o),
					Witness: map[string]any{"graph": fmt.Sprintf("%#04x", c11Graphs[gi]), "history": trace, "shared_loader": got, "fresh_loader": want}})
				return
			}
		case "load":
			root := filepath.Join(dir, g.fileName(o.Root))
			res, errs := shared.Load(root)
			fl := include.NewLoader()
			fl.SetLimits(limits)
			fres, ferrs := fl.Load(root)
			got := loadFingerprint(dir, res, errs, root)
			want := loadFingerprint(dir, fres, ferrs, root)
			c.Count("loads_compared", 1)
			nloads++
			if edited {
				c.Count("loads_after_edit", 1)
			}
			if edited || nloads > 1 {
				interesting = true
			}
			if got != want {
				field := "content"
				gl, wl := strings.Split(got, "\n"), strings.Split(want, "\n")
				for i := 0; i < len(gl) && i < len(wl); i++ {
					if gl[i] != wl[i] {
						field = strings.SplitN(wl[i], ":", 2)[0]
						break
					}
				}
				if len(gl) != len(wl) && field == "content" {
					field = "files"
				}
				shape := "after-repeat-load"
				if edited {
					shape = "after-edit"
				}
				c.Violate(Violation{Kind: "differs-from-fresh", Sig: "C11:differs-from-fresh(" + field + ")|" + shape, Pool: "clean",
					Detail:  fmt.Sprintf("step %d %s on the shared loader differs from a fresh loader on the same files", step, o),
					Witness: map[string]any{"graph": fmt.Sprintf("%#04x", c11Graphs[gi]), "history": trace, "shared_loader": got, "fresh_loader": want}})
				return
			}
		}
	}
	c.Count("histories", 1)
	if interesting {
		c.Nontrivial(HashStr(fmt.Sprintf("%d|%s", gi, strings.Join(trace, ","))))
	}
	if c.Rep.Evaluations%211 == 0 {
		c.Sample(map[string]any{"case": idx, "graph": fmt.Sprintf("%#04x", c11Graphs[gi]), "history": trace})
	}
}

// c11Server: the same question through the server: after an included file was edited and saved,
// answers about the including document must equal those of a fresh server on the same disk state.
func c11Server(c *Ctx, idx int64) {
	r := c.RNG(idx, 5)
	gi := r.Intn(len(c11Graphs))
	g := graphFromBits(c11Graphs[gi], 4)
	root := r.Chance(1, 2)
	mk := func(tag string) (string, *Session) {
		dir := filepath.Join(c.Dir, fmt.Sprintf("sv%d%s", idx, tag), "ws")
		os.MkdirAll(dir, 0o755)
		for i := 0; i < 4; i++ {
			c11WriteFile(g, dir, i, 0)
		}
		if root {
			os.WriteFile(filepath.Join(dir, "main.journal"), []byte("include f0.journal\n"), 0o644)
		}
		return dir, nil
	}
	dirA, _ := mk("a")
	defer os.RemoveAll(filepath.Dir(dirA))
	A := NewSession(dirA, SessOpt{Root: root})
	ctx := context.Background()
	u0 := A.URI(g.fileName(0))
	b0, _ := os.ReadFile(A.Path(g.fileName(0)))
	A.OpenWait(u0, string(b0))
	var trace []string
	vers := make([]int, 4)
	flips := make([]int, 4)
	n := r.Range(1, 4)
	for k := 0; k < n; k++ {
		f := r.Range(1, 3)
		row := uint32(r.Intn(16))
		if r.Chance(1, 4) {
			// rewritten with other text of the same size and the same modification time, then saved
			row = 0
			for j := 0; j < 4; j++ {
				if g.Adj[f][j] {
					row |= 1 << uint(j)
				}
			}
			flips[f]++
			if c11RewriteSameStamp(g, dirA, f, vers[f], flips[f]) {
				c.Count("same_stamp_rewrites", 1)
			}
		} else {
			for j := 0; j < 4; j++ {
				g.Adj[f][j] = row&(1<<uint(j)) != 0
			}
			vers[f]++
			c11WriteFileFlip(g, dirA, f, vers[f], flips[f])
		}
		uf := A.URI(g.fileName(f))
		bf, _ := os.ReadFile(A.Path(g.fileName(f)))
		switch r.Intn(3) {
		case 0: // edited in the editor and saved
			A.OpenWait(uf, string(bf))
			A.Save(uf)
			A.Close(uf)
			trace = append(trace, fmt.Sprintf("open+save+close f%d row=%04b", f, row))
		case 1: // saved by the editor without a buffer change notification
			A.Save(uf)
			trace = append(trace, fmt.Sprintf("save f%d row=%04b", f, row))
		default: // open, change, save
			A.OpenWait(uf, "; old\n")
			have := A.Stub.PubCount(uf)
			A.ChangeFull(uf, string(bf))
			A.WaitPub(uf, have)
			A.Save(uf)
			A.Close(uf)
			trace = append(trace, fmt.Sprintf("open+change+save+close f%d row=%04b", f, row))
		}
		A.Drain()
	}
	// re-analyse the including document the way an editor would: touch it
	have := A.Stub.PubCount(u0)
	A.ChangeFull(u0, string(b0))
	pubA, _ := A.WaitPub(u0, have)
	// fresh server on the same disk state
	dirB := filepath.Join(c.Dir, fmt.Sprintf("sv%db", idx), "ws")
	os.MkdirAll(dirB, 0o755)
	defer os.RemoveAll(filepath.Dir(dirB))
	for i := 0; i < 4; i++ {
		bb, _ := os.ReadFile(A.Path(g.fileName(i)))
		os.WriteFile(filepath.Join(dirB, g.fileName(i)), bb, 0o644)
	}
	if root {
		os.WriteFile(filepath.Join(dirB, "main.journal"), []byte("include f0.journal\n"), 0o644)
	}
	B := NewSession(dirB, SessOpt{Root: root})
	v0 := B.URI(g.fileName(0))
	pubB, _ := B.OpenWait(v0, string(b0))
	c.Count("server_histories", 1)
	c.Count("histories", 1)
	c.Count("loads_compared", 1)
	c.Count("loads_after_edit", 1)
	norm := func(s *Session, v any) string { return strings.ReplaceAll(CanonJSON(v), s.Dir, "DIR") }
	probe := func(s *Session, u protocol.DocumentURI) map[string]string {
		out := map[string]string{}
		// marker posting line of f0: after the include lines and an empty line
		nInc := 0
		for j := 0; j < 4; j++ {
			if g.Adj[0][j] {
				nInc++
			}
		}
		pos := protocol.TextDocumentPositionParams{TextDocument: protocol.TextDocumentIdentifier{URI: u}, Position: protocol.Position{Line: uint32(nInc + 3), Character: 6}}
		rf, _ := s.Srv.References(ctx, &protocol.ReferenceParams{TextDocumentPositionParams: pos, Context: protocol.ReferenceContext{IncludeDeclaration: true}})
		out["references"] = norm(s, rf)
		cp, _ := s.Srv.Completion(ctx, &protocol.CompletionParams{TextDocumentPositionParams: protocol.TextDocumentPositionParams{TextDocument: pos.TextDocument, Position: protocol.Position{Line: uint32(nInc + 3), Character: 5}}})
		var labels []string
		if cp != nil {
			for _, it := range cp.Items {
				labels = append(labels, it.Label+"|"+it.Detail)
			}
		}
		sort.Strings(labels)
		out["completion"] = strings.Join(labels, ",")
		hv, _ := s.Srv.Hover(ctx, &protocol.HoverParams{TextDocumentPositionParams: protocol.TextDocumentPositionParams{TextDocument: pos.TextDocument, Position: protocol.Position{Line: uint32(nInc + 4), Character: 6}}})
		out["hover"] = norm(s, hv)
		return out
	}
	pa, pb := probe(A, u0), probe(B, v0)
	pa["diagnostics"] = strings.ReplaceAll(diagsCanon(pubA), A.Dir, "DIR")
	pb["diagnostics"] = strings.ReplaceAll(diagsCanon(pubB), B.Dir, "DIR")
	for k, va := range pa {
		if va != pb[k] {
			c.Violate(Violation{Kind: "differs-from-fresh", Sig: fmt.Sprintf("C11:server-differs-from-fresh(%s)|root=%v", k, root), Pool: "clean",
				Detail:  fmt.Sprintf("%s of the including document after [%s] differs from a fresh server on the same files: %s vs %s", k, strings.Join(trace, "; "), oneLine(va, 300), oneLine(pb[k], 300)),
				Witness: map[string]any{"graph": fmt.Sprintf("%#04x", c11Graphs[gi]), "history": trace, "workspace_root": root}})
			return
		}
	}
	c.Nontrivial(HashStr(fmt.Sprintf("srv|%d|%v|%s", gi, root, strings.Join(trace, ","))))
}
