package zv

import (
	"fmt"
	"os"
	"regexp"
	"sort"
	"strconv"
	"strings"

	"go.lsp.dev/protocol"
)

// C13 Published diagnostics converge to the latest content under any timing.

type schedStep struct {
	Deliver bool // release the parked PublishDiagnostics call of version I
	Resume  bool // release version I from the pre-publish hook gate (diag.loaded)
	I       int  // version index (0 = didOpen, i>0 = i-th didChange)
}

func (s schedStep) String() string {
	switch {
	case s.Deliver:
		return fmt.Sprintf("D%d", s.I)
	case s.Resume:
		return fmt.Sprintf("R%d", s.I)
	}
	return fmt.Sprintf("C%d", s.I)
}

// allSchedules enumerates the linear extensions of {C0<C1<…<Cn-1, Ci<Di} (two events per
// version) or {C0<…<Cn-1, Ci<Ri<Di} (three events: also held before the publishing point).
func allSchedules(n int, three bool) [][]schedStep {
	var out [][]schedStep
	var cur []schedStep
	stage := make([]int, n) // 0 not sent, 1 sent, 2 resumed, 3 delivered
	last := 2
	if three {
		last = 3
	}
	var rec func(sent, fin int)
	rec = func(sent, fin int) {
		if sent == n && fin == n {
			out = append(out, append([]schedStep(nil), cur...))
			return
		}
		if sent < n {
			stage[sent] = 1
			cur = append(cur, schedStep{I: sent})
			rec(sent+1, fin)
			cur = cur[:len(cur)-1]
			stage[sent] = 0
		}
		for i := 0; i < sent; i++ {
			if stage[i] >= 1 && stage[i] < last {
				stage[i]++
				st := schedStep{I: i}
				f := fin
				if stage[i] == last {
					st.Deliver = true
					f++
				} else {
					st.Resume = true
				}
				cur = append(cur, st)
				rec(sent, f)
				cur = cur[:len(cur)-1]
				stage[i]--
			}
		}
	}
	rec(0, 0)
	return out
}

var schedCache = map[int][][]schedStep{}

func schedulesOf(n int, three bool) [][]schedStep {
	k := n
	if three {
		k += 100
	}
	if s, ok := schedCache[k]; ok {
		return s
	}
	s := allSchedules(n, three)
	schedCache[k] = s
	return s
}

func schedules(n int) [][]schedStep { return schedulesOf(n, false) }

func c13Text(doc, k int) string {
	// each version is out of balance by a different amount, so a payload names its version
	return fmt.Sprintf("2019-01-0%d burst doc%d v%d\n    assets:cash  %d USD\n    expenses:food  -1000 USD\n", 1+doc, doc, k, 1001+k+100*doc)
}

var offByRe = regexp.MustCompile(`off by (\d+)`)

func payloadVersion(p *protocol.PublishDiagnosticsParams, doc int) int {
	for _, d := range p.Diagnostics {
		if m := offByRe.FindStringSubmatch(d.Message); m != nil {
			k, _ := strconv.Atoi(m[1])
			return k - 100*doc - 1
		}
	}
	return -1
}

type c13Plan struct {
	n     int // burst size for single-document cases
	sched int
	two   bool
	root  bool
	three bool // three events per version (hook gate before the publishing point)
	gate  string
	// reopen > 0: version `reopen` arrives as didClose + didOpen instead of didChange
	reopen int
	// dupK > 0: version dupK is the text of version dupJ < dupK plus a trailing comment line, so
	// the two have equal diagnostics although the text differs (a publish that is "nothing new")
	dupK, dupJ int
}

func c13Plans(tier string) []c13Plan {
	var ps []c13Plan
	for _, root := range []bool{false, true} {
		for n := 2; n <= 4; n++ {
			for i := range schedules(n) {
				ps = append(ps, c13Plan{n: n, sched: i, root: root})
			}
		}
		if tier == "thorough" {
			for i := range schedules(5) {
				ps = append(ps, c13Plan{n: 5, sched: i, root: root})
			}
		}
	}
	// three-event schedules: all for 2 and 3 versions, 4 versions sampled (quick) / all (thorough)
	for _, root := range []bool{false, true} {
		for n := 2; n <= 3; n++ {
			for i := range schedulesOf(n, true) {
				ps = append(ps, c13Plan{n: n, sched: i, root: root, three: true, gate: "diag.loaded"})
				ps = append(ps, c13Plan{n: n, sched: i, root: root, three: true, gate: "diag.enter"})
			}
		}
		if tier == "thorough" {
			for i := range schedulesOf(4, true) {
				ps = append(ps, c13Plan{n: 4, sched: i, root: root, three: true})
			}
		}
	}
	// close + reopen in place of a change: all two- and three-event schedules for 2 and 3 versions
	for _, root := range []bool{false, true} {
		for n := 2; n <= 3; n++ {
			for at := 1; at < n; at++ {
				for i := range schedules(n) {
					ps = append(ps, c13Plan{n: n, sched: i, root: root, reopen: at})
				}
				for i := range schedulesOf(n, true) {
					ps = append(ps, c13Plan{n: n, sched: i, root: root, three: true, gate: "diag.loaded", reopen: at})
					ps = append(ps, c13Plan{n: n, sched: i, root: root, three: true, gate: "diag.enter", reopen: at})
				}
			}
		}
	}
	// versions with equal diagnostics: all two- and three-event schedules for 3 versions, for each
	// way one version repeats the diagnostics of an earlier one
	for _, dj := range [][2]int{{2, 1}, {2, 0}, {1, 0}} {
		for _, root := range []bool{false, true} {
			if root && tier != "thorough" {
				continue
			}
			for i := range schedules(3) {
				ps = append(ps, c13Plan{n: 3, sched: i, root: root, dupK: dj[0], dupJ: dj[1]})
			}
			for i := range schedulesOf(3, true) {
				ps = append(ps, c13Plan{n: 3, sched: i, root: root, three: true, gate: "diag.loaded", dupK: dj[0], dupJ: dj[1]})
				ps = append(ps, c13Plan{n: 3, sched: i, root: root, three: true, gate: "diag.enter", dupK: dj[0], dupJ: dj[1]})
			}
		}
	}
	k4 := 600
	if tier == "thorough" {
		k4 = 0
	}
	for i := 0; i < k4; i++ {
		ps = append(ps, c13Plan{n: 4, sched: -1, root: i%2 == 0, three: true})
	}
	k5, k2 := 120, 200
	if tier == "thorough" {
		k5, k2 = 0, 4000
		for i := 0; i < 20000; i++ {
			ps = append(ps, c13Plan{n: 5, sched: -1, root: i%2 == 0, three: true})
		}
	}
	for i := 0; i < k5; i++ {
		ps = append(ps, c13Plan{n: 5, sched: -1, root: i%2 == 0})
	}
	for i := 0; i < k2; i++ {
		ps = append(ps, c13Plan{two: true, sched: -1, root: i%2 == 0})
	}
	return ps
}

func diagsCanon(p *protocol.PublishDiagnosticsParams) string {
	if p == nil {
		return "<none>"
	}
	return strings.Join(DiagKeys(p.Diagnostics), "\n")
}

func init() {
	Register(&Prop{
		ID:          "C13",
		Race:        true,
		Rule:        "bursts of 2-5 versions (didOpen + didChange) of one document, each out of balance by a distinct amount so that a payload identifies its version; the stub client parks every PublishDiagnostics call and the controller realises a schedule = linear extension of {change_i < change_i+1, change_i < deliver_i}, waiting for goroutine-state quiescence between steps. All 3/15/105 schedules for 2/3/4 versions are enumerated (945 for 5 in the thorough tier, sampled in quick), with and without workspace root; two-document bursts interleave two schedules (sampled). Oracle: at final quiescence the last delivered diagnostics per document equal those a fresh server publishes for the final text. The same schedules with one version arriving as didClose+didOpen instead of didChange (2 and 3 versions, every position). All two- and three-event schedules of 3 versions again with one version repeating the diagnostics (not the text) of an earlier one, in each of the three ways (a publish that carries nothing new must still not leave older diagnostics as the final word). Three-event schedules additionally hold every analysis at the diag.loaded hook (before the publishing point): all 10/280 for 2/3 versions, 4 versions sampled (quick) or all 15400 (thorough). Non-trivial = a schedule that asks for a delivery order different from the change order, or any three-event schedule (whether the implementation lets it happen is counted separately: out_of_order_deliveries_realised, infeasible_release_steps); distinct by schedule string.",
		Notes:       []string{"gates exist only at the client boundary (PublishDiagnostics); a release step whose call never arrives (suppressed by the implementation) is recorded as infeasible, not as an error", "runs under the race detector (by-catch)"},
		Cases:       func(tier string) int64 { return int64(len(c13Plans(tier))) },
		Exhaustive:  func(tier string) bool { return true },
		Shards:      func(tier string) int { return 16 },
		MustObserve: []string{"schedules_run", "deliveries", "reordering_schedules_attempted"},
		RunCase:     runC13,
	})
}

func runC13(c *Ctx, idx int64) {
	plans := c13Plans(c.Tier)
	pl := plans[idx]
	r := c.RNG(idx, 0)
	dir := fmt.Sprintf("%s/c13-%d", c.Dir, idx)
	defer os.RemoveAll(dir)
	if pl.root {
		os.MkdirAll(dir, 0o755)
		os.WriteFile(dir+"/main.journal", []byte("include d0.journal\ninclude d1.journal\n"), 0o644)
		os.WriteFile(dir+"/d0.journal", []byte(c13Text(0, 0)), 0o644)
		os.WriteFile(dir+"/d1.journal", []byte(c13Text(1, 0)), 0o644)
	}
	var hg *HookGate
	if pl.three {
		gate := pl.gate
		if gate == "" {
			gate = []string{"diag.loaded", "diag.enter"}[int(idx)%2]
		}
		hg = InstallHookGate(gate)
		defer RemoveHookGate()
		c.Count("gate:"+gate, 1)
	}
	s := NewSession(dir, SessOpt{Root: pl.root, GatePub: true})
	ndocs := 1
	if pl.two {
		ndocs = 2
	}
	// per-document schedules, merged into one step list
	type gstep struct {
		doc int
		st  schedStep
	}
	var steps []gstep
	ns := make([]int, ndocs)
	if !pl.two {
		ns[0] = pl.n
		var sc []schedStep
		if pl.sched >= 0 {
			sc = schedulesOf(pl.n, pl.three)[pl.sched]
		} else {
			all := schedulesOf(pl.n, pl.three)
			sc = all[r.Intn(len(all))]
		}
		for _, st := range sc {
			steps = append(steps, gstep{0, st})
		}
	} else {
		var scs [2][]schedStep
		for d := 0; d < 2; d++ {
			ns[d] = r.Range(2, 4)
			all := schedules(ns[d])
			scs[d] = all[r.Intn(len(all))]
		}
		i, j := 0, 0
		for i < len(scs[0]) || j < len(scs[1]) {
			if j >= len(scs[1]) || (i < len(scs[0]) && r.Bool()) {
				steps = append(steps, gstep{0, scs[0][i]})
				i++
			} else {
				steps = append(steps, gstep{1, scs[1][j]})
				j++
			}
		}
	}
	uris := []protocol.DocumentURI{s.URI("d0.journal"), s.URI("d1.journal")}
	txt := func(doc, ver int) string {
		if pl.dupK > 0 && ver == pl.dupK {
			return c13Text(doc, pl.dupJ) + fmt.Sprintf("; version %d: the entries of version %d again\n", ver, pl.dupJ)
		}
		return c13Text(doc, ver)
	}
	canon := func(ver int) int {
		if pl.dupK > 0 && ver == pl.dupK {
			return pl.dupJ
		}
		return ver
	}
	var trace []string
	infeasible := 0
	lastSent := make([]int, ndocs)
	outOfOrder := false
	var deliveredOrder [2][]int
	for _, g := range steps {
		trace = append(trace, fmt.Sprintf("%d:%s", g.doc, g.st))
		if g.st.Resume {
			// versions reach the hook in change order (each runs up to the gate before the next change is sent)
			var target *hookCall
			nth := 0
			for _, h := range hg.parkedAll() {
				if h.Key == string(uris[g.doc]) {
					if nth == g.st.I {
						target = h
					}
					nth++
				}
			}
			if target == nil || target.done {
				infeasible++
				continue
			}
			hg.Release(target)
			c.Count("resumes", 1)
			if _, ok := s.Quiesce(); !ok {
				c.Inconclusive("quiescence watchdog after a resume")
				s.Drain()
				return
			}
			continue
		}
		if !g.st.Deliver {
			doc, ver := g.doc, g.st.I
			blocked, bdump, done := s.Do(func() {
				switch {
				case ver == 0:
					s.Open(uris[doc], txt(doc, 0))
				case ver == pl.reopen:
					s.Close(uris[doc])
					s.Open(uris[doc], txt(doc, ver))
				default:
					s.ChangeFull(uris[doc], txt(doc, ver))
				}
			})
			if blocked {
				c.Violate(Violation{Kind: "handler-blocked", Sig: "C13:handler-blocked", Pool: "n/a",
					Detail:  "a notification handler is blocked while an earlier publish is still in flight at the client boundary; the schedule cannot proceed",
					Witness: map[string]any{"schedule": trace, "handler_goroutine": trimStack(bdump)}})
				s.Drain()
				<-done
				s.Drain()
				return
			}
			lastSent[g.doc] = g.st.I
			if _, ok := s.Quiesce(); !ok {
				c.Inconclusive("quiescence watchdog after a change")
				s.Drain()
				return
			}
			continue
		}
		var target *gatedCall
		for _, gc := range s.Stub.Gated() {
			if gc.Kind == "publish" && gc.URI == uris[g.doc] && payloadVersion(gc.Params, g.doc) == canon(g.st.I) {
				target = gc
				break
			}
		}
		if target == nil {
			infeasible++
			continue
		}
		s.Stub.Release(target)
		c.Count("deliveries", 1)
		if n := len(deliveredOrder[g.doc]); n > 0 && deliveredOrder[g.doc][n-1] > g.st.I {
			outOfOrder = true
		}
		deliveredOrder[g.doc] = append(deliveredOrder[g.doc], g.st.I)
		if _, ok := s.Quiesce(); !ok {
			c.Inconclusive("quiescence watchdog after a release")
			s.Drain()
			return
		}
	}
	ok, dump := s.Drain()
	if !ok {
		c.Inconclusive("drain watchdog")
		return
	}
	c.Count("schedules_run", 1)
	if pl.three {
		c.Count("three_event_schedules_run", 1)
	}
	if pl.dupK > 0 {
		c.Count("schedules_with_versions_of_equal_diagnostics", 1)
		trace = append(trace, fmt.Sprintf("(version %d has the diagnostics of version %d)", pl.dupK, pl.dupJ))
	}
	if pl.reopen > 0 {
		c.Count("schedules_with_close_and_reopen", 1)
		trace = append(trace, fmt.Sprintf("(version %d arrives as didClose+didOpen)", pl.reopen))
	}
	c.Count("infeasible_release_steps", int64(infeasible))
	if outOfOrder {
		c.Count("out_of_order_deliveries_realised", 1)
	}
	// a schedule is non-trivial when it asks for a delivery order that differs from the change order
	var lastD [2]int
	reorders := false
	for _, g := range steps {
		if g.st.Deliver {
			if g.st.I < lastD[g.doc] {
				reorders = true
			}
			lastD[g.doc] = g.st.I
		}
	}
	if reorders {
		c.Count("reordering_schedules_attempted", 1)
	}
	if reorders || pl.three {
		c.Nontrivial(HashStr(fmt.Sprint(pl.root, pl.gate, pl.three, pl.reopen, pl.dupK, pl.dupJ) + strings.Join(trace, " ")))
	}
	if dump != "" {
		c.Violate(Violation{Kind: "deadlock", Sig: "C13:deadlock", Pool: "n/a", Detail: "server goroutines remain blocked after every parked call was released", Witness: map[string]any{"schedule": trace, "dump": trimStack(dump)}})
		return
	}
	// oracle: last delivered == fresh server on the final text
	if hg != nil {
		hg.SetPoints() // the reference server runs without gates
	}
	for d := 0; d < ndocs; d++ {
		final := txt(d, ns[d]-1)
		fdir := fmt.Sprintf("%s/c13f-%d-%d", c.Dir, idx, d)
		if pl.root {
			os.MkdirAll(fdir, 0o755)
			os.WriteFile(fdir+"/main.journal", []byte("include d0.journal\ninclude d1.journal\n"), 0o644)
			os.WriteFile(fdir+"/d0.journal", []byte(c13Text(0, 0)), 0o644)
			os.WriteFile(fdir+"/d1.journal", []byte(c13Text(1, 0)), 0o644)
		}
		fs := NewSession(fdir, SessOpt{Root: pl.root})
		fu := fs.URI(fmt.Sprintf("d%d.journal", d))
		want, okp := fs.OpenWait(fu, final)
		os.RemoveAll(fdir)
		if !okp {
			c.Inconclusive("fresh server did not publish")
			return
		}
		got := s.Stub.LastPub(uris[d])
		if diagsCanon(got) != diagsCanon(want) {
			gv := -1
			if got != nil {
				gv = payloadVersion(got, d)
			}
			ord := append([]int(nil), deliveredOrder[d]...)
			sorted := sort.IntsAreSorted(ord)
			kind := "stale-final"
			c.Violate(Violation{Kind: kind, Sig: "C13:stale-final", Pool: "n/a",
				Detail:  fmt.Sprintf("document %d: the last delivered diagnostics are those of version %d, the latest content is version %d (delivery order %v, in change order: %v)", d, gv, ns[d]-1, ord, sorted),
				Witness: map[string]any{"schedule": trace, "workspace_root": pl.root, "last_delivered": diagsCanon(got), "expected": diagsCanon(want)}})
			return
		}
	}
	if c.Rep.Evaluations%37 == 0 {
		c.Sample(map[string]any{"case": idx, "schedule": strings.Join(trace, " "), "workspace_root": pl.root, "delivered_order_doc0": deliveredOrder[0], "infeasible_release_steps": infeasible})
	}
}
