package zv

import (
	"context"
	"encoding/json"
	"fmt"
	lspuri "go.lsp.dev/uri"
	"os"
	"path/filepath"
	"strings"
	"time"
	"unicode/utf16"
	"unicode/utf8"

	"go.lsp.dev/protocol"
)

// C01 Document mirror fidelity under any edit history.

// ---- reference client buffer (UTF-16 positions, LSP clamping) ----

// refLines returns, per line, the byte offset of its start and of its end (before the
// terminator; "\r\n" and "\n" are terminators).
func refLines(text string) (starts, ends []int) {
	start := 0
	for i := 0; i < len(text); i++ {
		if text[i] == '\n' {
			end := i
			if end > start && text[end-1] == '\r' {
				end--
			}
			starts = append(starts, start)
			ends = append(ends, end)
			start = i + 1
		}
	}
	starts = append(starts, start)
	ends = append(ends, len(text))
	return
}

func refOffset(text string, line, ch int) int {
	starts, ends := refLines(text)
	if line >= len(starts) {
		return len(text)
	}
	seg := text[starts[line]:ends[line]]
	u := 0
	off := 0
	for _, r := range seg {
		if u >= ch {
			break
		}
		if r >= 0x10000 {
			u += 2
		} else {
			u++
		}
		off += utf8.RuneLen(r)
	}
	return starts[line] + off
}

type refChange struct {
	Full   bool
	SL, SC int
	EL, EC int
	Text   string
}

func refApply(text string, ch refChange) string {
	if ch.Full {
		return ch.Text
	}
	a := refOffset(text, ch.SL, ch.SC)
	b := refOffset(text, ch.EL, ch.EC)
	if a > b {
		a, b = b, a
	}
	return text[:a] + ch.Text + text[b:]
}

// ---- generators ----

var c01Alphabet = []string{"a", "b", "x", " ", " ", "1", ":", "é", "я", "日", "😀", "𝄞", "\n", "\n", "\r\n", ";", "2024-01-15 ", "    assets:cash  10 USD", "    e:f"}

func c01Doc(r *RNG) string {
	switch r.Intn(10) {
	case 0:
		return ""
	case 1:
		return "2024-01-15 shop\n    expenses:food  10 USD\n    assets:cash\n"
	case 2, 3:
		// a payee with a posting template and a fresh header of the same payee to complete
		tmpl := Pick(r, []string{"    expenses:food  10 USD\n    assets:cash\n", "    expenses:fuel  20 EUR\n    liabilities:card\n", "    expenses:food:groceries  5 CHF\n    assets:bank\n"})
		return "2024-01-15 shop\n" + tmpl + "\n2024-03-01 shop\n"
	}
	n := r.Range(1, 25)
	var sb strings.Builder
	for i := 0; i < n; i++ {
		sb.WriteString(Pick(r, c01Alphabet))
	}
	return sb.String()
}

func c01Insert(r *RNG) string {
	switch r.Intn(8) {
	case 0:
		return ""
	case 1:
		return "Z"
	case 2:
		return "é日"
	case 3:
		return "😀"
	case 4:
		return "q\nw"
	case 5:
		return "\r\n"
	case 6:
		return "\n2024-02-01 new entry\n    a:b  1 EUR\n    c:d\n"
	default:
		return "\n"
	}
}

// linePositions lists the UTF-16 columns of a line that lie on code-point boundaries.
func linePositions(seg string) []int {
	pos := []int{0}
	u := 0
	for _, r := range seg {
		if r >= 0x10000 {
			u += 2
		} else {
			u++
		}
		pos = append(pos, u)
	}
	return pos
}

func c01Pos(r *RNG, text string) (int, int) {
	starts, ends := refLines(text)
	nl := len(starts)
	switch r.Intn(12) {
	case 0:
		return 0, 0
	case 1:
		return nl + r.Intn(3), r.Intn(5) // line past the document end
	case 2:
		l := r.Intn(nl)
		return l, u16len(text[starts[l]:ends[l]]) + 1 + r.Intn(3) // past the line end
	case 3:
		l := r.Intn(nl)
		return l, u16len(text[starts[l]:ends[l]]) + 1000
	case 4:
		l := nl - 1
		return l, u16len(text[starts[l]:ends[l]])
	case 5:
		l := r.Intn(nl)
		return l, 0 // start of a line (deleting a line break when paired with the previous end)
	case 6:
		l := r.Intn(nl)
		return l, u16len(text[starts[l]:ends[l]]) // exactly the line end
	}
	l := r.Intn(nl)
	ps := linePositions(text[starts[l]:ends[l]])
	return l, Pick(r, ps)
}

func c01Change(r *RNG, text string, allowOriginEmpty bool) refChange {
	if r.Chance(1, 8) {
		return refChange{Full: true, Text: c01Doc(r)}
	}
	for {
		sl, sc := c01Pos(r, text)
		el, ec := c01Pos(r, text)
		if r.Chance(1, 3) {
			el, ec = sl, sc // pure insertion
		}
		if sl > el || (sl == el && sc > ec) {
			sl, sc, el, ec = el, ec, sl, sc
		}
		if !allowOriginEmpty && sl == 0 && sc == 0 && el == 0 && ec == 0 {
			continue // indistinguishable from a range-less change after protocol decoding
		}
		return refChange{SL: sl, SC: sc, EL: el, EC: ec, Text: c01Insert(r)}
	}
}

func toProto(ch refChange) protocol.TextDocumentContentChangeEvent {
	if ch.Full {
		return protocol.TextDocumentContentChangeEvent{Text: ch.Text}
	}
	return protocol.TextDocumentContentChangeEvent{Range: protocol.Range{
		Start: protocol.Position{Line: uint32(ch.SL), Character: uint32(ch.SC)},
		End:   protocol.Position{Line: uint32(ch.EL), Character: uint32(ch.EC)}}, Text: ch.Text}
}

func changeFeature(text string, ch refChange) string {
	if ch.Full {
		return "rangeless"
	}
	starts, ends := refLines(text)
	f := "ranged"
	past := func(l, c int) string {
		if l >= len(starts) {
			return "+line-past-eod"
		}
		if c > u16len(text[starts[l]:ends[l]]) {
			if ends[l] < len(text) && text[ends[l]] == '\r' {
				return "+past-eol-crlf"
			}
			return "+past-eol"
		}
		return ""
	}
	f += past(ch.SL, ch.SC)
	if e := past(ch.EL, ch.EC); e != "" && !strings.Contains(f, e) {
		f += e
	}
	if ch.SL == 0 && ch.SC == 0 && ch.EL == 0 && ch.EC == 0 {
		f += "+empty-at-origin"
	}
	return f
}

// ---- battery ----

// batteryAnswers issues the feature battery for uri and returns canonical JSON per request.
func batteryAnswers(s *Session, uri protocol.DocumentURI, text string, r *RNG, inline bool) map[string]string {
	out := map[string]string{}
	ctx := context.Background()
	id := protocol.TextDocumentIdentifier{URI: uri}
	// the server answers with its own spelling of the document's URI
	canon := string(lspuri.File(lspuri.URI(uri).Filename()))
	norm := func(v any) string {
		return strings.ReplaceAll(strings.ReplaceAll(CanonJSON(v), string(uri), "URI"), canon, "URI")
	}
	ds, _ := s.Srv.DocumentSymbol(ctx, &protocol.DocumentSymbolParams{TextDocument: id})
	out["documentSymbol"] = norm(ds)
	fr, _ := s.Srv.FoldingRanges(ctx, &protocol.FoldingRangeParams{TextDocumentPositionParams: protocol.TextDocumentPositionParams{TextDocument: id}})
	out["foldingRange"] = norm(fr)
	stok, _ := s.Srv.SemanticTokensFull(ctx, &protocol.SemanticTokensParams{TextDocument: id})
	if stok != nil {
		out["semanticTokens"] = norm(stok.Data)
	}
	dl, _ := s.Srv.DocumentLink(ctx, &protocol.DocumentLinkParams{TextDocument: id})
	out["documentLink"] = norm(dl)
	ft, _ := s.Srv.Format(ctx, &protocol.DocumentFormattingParams{TextDocument: id})
	out["formatting"] = norm(ft)
	starts, ends := refLines(text)
	for k := 0; k < 5; k++ {
		l := r.Intn(len(starts) + 1)
		c := 0
		if l < len(starts) {
			c = r.Intn(u16len(text[starts[l]:ends[l]]) + 2)
			// keep positions on code-point boundaries
			ps := linePositions(text[starts[l]:ends[l]])
			c = ps[r.Intn(len(ps))]
		}
		pos := protocol.TextDocumentPositionParams{TextDocument: id, Position: protocol.Position{Line: uint32(l), Character: uint32(c)}}
		key := fmt.Sprintf("@%d:%d", l, c)
		hv, _ := s.Srv.Hover(ctx, &protocol.HoverParams{TextDocumentPositionParams: pos})
		out["hover"+key] = norm(hv)
		cp, _ := s.Srv.Completion(ctx, &protocol.CompletionParams{TextDocumentPositionParams: pos})
		out["completion"+key] = norm(cp)
		df, _ := s.Srv.Definition(ctx, &protocol.DefinitionParams{TextDocumentPositionParams: pos})
		out["definition"+key] = norm(df)
		if inline {
			pj, _ := json.Marshal(map[string]any{"textDocument": id, "position": pos.Position, "context": map[string]any{"triggerKind": 1}})
			ic, _ := s.Srv.InlineCompletion(ctx, pj)
			out["inlineCompletion"+key] = norm(ic)
		}
	}
	if inline {
		n := 0
		for l := 0; l < len(starts) && n < 3; l++ {
			lt := text[starts[l]:ends[l]]
			if len(lt) > 0 && lt[0] >= '0' && lt[0] <= '9' {
				n++
				pj, _ := json.Marshal(map[string]any{"textDocument": id, "position": protocol.Position{Line: uint32(l + 1), Character: 0}, "context": map[string]any{"triggerKind": 1}})
				ic, _ := s.Srv.InlineCompletion(ctx, pj)
				out[fmt.Sprintf("inlineCompletion@below-header-%d", l)] = norm(ic)
			}
		}
	}
	return out
}

type c01State struct {
	sess    *Session
	nsess   int
	inlineK bool // inline-completion staleness listed as a finding
	crlfK   bool
}

func c01Counts(tier string) (hist, sweepDocs, wire int64) {
	if tier == "thorough" {
		return 600000, 40, 6000
	}
	return 20000, 8, 160
}

var c01SweepDocs = []string{
	"ab\ncd", "a😀b\n", "é\r\nя\r\n", "", "x", "\n", "\r\n", "日本\n😀𝄞\nz",
	"ab\r\ncd\r\n", "a\n\nb", "😀", "a\r\n", "ab\ncd\n", "𝄞a𝄞\nb", "é", "  \n  ",
	"2024-01-15 x\n    a:b  1 USD\n", "a;b\n", "\n\n", "a\rb\n", "1\r\n2\r\n3", "q😀\r\nw", "日", "ab",
	"a\nb\nc\n", "é😀é", "x\r\n\r\ny", "   ", "a:b\n", "t\n", "😀\n😀", "m\r\n",
	"ab\n\r\ncd", "z\n\n\n", "ya\nyb", "é\n", "€1\n", "a b\n", "0\n1", "w\r\nv\n",
}

var c01SweepIns = []string{"", "Z", "😀", "\n", "\r\n", "é\nя"}

func init() {
	Register(&Prop{
		ID:    "C01",
		Rule:  "edit histories (open, 1-4 ranged/range-less changes per notification, close, re-open with restarted versions) over documents with ASCII/BMP/non-BMP characters, LF/CRLF, empty and no-final-newline; positions by class (origin, in line, line end, past line end, past document end); after every notification Server.GetDocument is compared with a reference UTF-16 client buffer, and a feature battery on the document is compared with the same battery on a twin document opened with the reference text. Plus an exhaustive sweep (every start/end pair on code-point boundaries x 6 replacement texts on fixed small documents) and wire histories against the built binary (the only driver that can send a ranged change at 0:0-0:0), judged by comparing its answers with a fresh in-process server opened on the reference text. Non-trivial = history with >=1 ranged change; distinct by hash of the history.",
		Notes: []string{"lone CR line ends and positions inside a surrogate pair are outside the statement", "reference buffer is the trusted base"},
		Cases: func(tier string) int64 {
			h, sd, w := c01Counts(tier)
			return h + sd + w
		},
		MustObserve: []string{"notifications", "mirror_checks", "battery_requests", "sweep_changes", "wire_histories"},
		Setup: func(c *Ctx) {
			st := &c01State{}
			st.inlineK = c.Known.Match("C01", "C01:battery-mismatch|inlineCompletion|unsaved-edit") != nil
			st.crlfK = c.Known.Match("C01", "C01:text-mismatch|ranged+past-eol-crlf") != nil
			c.State = st
		},
		RunCase: runC01,
	})
}

func runC01(c *Ctx, idx int64) {
	st := c.State.(*c01State)
	h, sd, _ := c01Counts(c.Tier)
	switch {
	case idx < h:
		c01History(c, st, idx)
	case idx < h+sd:
		c01Sweep(c, st, int(idx-h))
	default:
		c01Wire(c, st, idx)
	}
}

func (st *c01State) session(c *Ctx, idx int64) *Session {
	if st.sess == nil || st.nsess > 1500 {
		st.sess = NewSession(fmt.Sprintf("%s/c01-%d", c.Dir, idx), SessOpt{})
		st.nsess = 0
	}
	st.nsess++
	return st.sess
}

type c01Step struct {
	Op      string      `json:"op"`
	URI     int         `json:"doc"`
	Text    string      `json:"text,omitempty"`
	Changes []refChange `json:"changes,omitempty"`
}

func c01History(c *Ctx, st *c01State, idx int64) {
	r := c.RNG(idx, 0)
	s := st.session(c, idx)
	ndocs := r.Range(1, 3)
	uris := make([]protocol.DocumentURI, ndocs)
	ref := make([]string, ndocs)
	open := make([]bool, ndocs)
	edited := make([]bool, ndocs) // unsaved edits since open/save
	for i := range uris {
		// the same file can be spelled in several ways; the client's spelling is the document's name
		name := fmt.Sprintf("h%d_%d%s.journal", idx, i, Pick(r, []string{"", "", "", "%2Bx", "%2bx", "%3Dy", "%41", "%c3%a9", ",z"}))
		uris[i] = s.URI(name)
	}
	nsteps := r.Range(1, 12)
	var steps []c01Step
	ranged := false
	fail := func(kind, sig, detail string, extra map[string]any) {
		w := map[string]any{"steps": steps}
		for k, v := range extra {
			w[k] = v
		}
		c.Violate(Violation{Kind: kind, Sig: sig, Pool: "clean", Detail: detail, Witness: w})
	}
	defer func() {
		for i, u := range uris {
			if open[i] {
				s.Close(u)
			}
		}
	}()
	for n := 0; n < nsteps; n++ {
		d := r.Intn(ndocs)
		feat := ""
		if !open[d] {
			ref[d] = c01Doc(r)
			have := s.Stub.PubCount(uris[d])
			s.Open(uris[d], ref[d])
			s.WaitPub(uris[d], have)
			open[d], edited[d] = true, false
			steps = append(steps, c01Step{Op: "open", URI: d, Text: ref[d]})
			feat = "open"
		} else {
			switch x := r.Intn(10); {
			case x == 0:
				s.Close(uris[d])
				open[d] = false
				steps = append(steps, c01Step{Op: "close", URI: d})
				c.Count("notifications", 1)
				continue
			case x == 1:
				s.Save(uris[d])
				edited[d] = false
				steps = append(steps, c01Step{Op: "save", URI: d})
				c.Count("notifications", 1)
				continue
			default:
				k := r.Range(1, 4)
				var chs []refChange
				var pcs []protocol.TextDocumentContentChangeEvent
				cur := ref[d]
				for i := 0; i < k; i++ {
					ch := c01Change(r, cur, false)
					f := changeFeature(cur, ch)
					if st.crlfK && strings.Contains(f, "past-eol-crlf") {
						i--
						continue
					}
					if feat == "" || len(f) > len(feat) {
						feat = f
					}
					if !ch.Full {
						ranged = true
					}
					cur = refApply(cur, ch)
					chs = append(chs, ch)
					pcs = append(pcs, toProto(ch))
				}
				if k > 1 {
					feat += "+multi"
				}
				have := s.Stub.PubCount(uris[d])
				s.Change(uris[d], pcs)
				s.WaitPub(uris[d], have)
				ref[d] = cur
				edited[d] = true
				steps = append(steps, c01Step{Op: "change", URI: d, Changes: chs})
			}
		}
		c.Count("notifications", 1)
		c.Count("step:"+feat, 1)
		got, ok := s.Srv.GetDocument(uris[d])
		c.Count("mirror_checks", 1)
		if !ok || got != ref[d] {
			f := strings.TrimSuffix(feat, "+multi")
			fail("text-mismatch", "C01:text-mismatch|"+f, fmt.Sprintf("after step %d the server holds %q, a conforming client holds %q", n, got, ref[d]), map[string]any{"server": got, "client": ref[d]})
			return
		}
		// feature battery at some points and at the end
		if n == nsteps-1 || r.Chance(1, 4) {
			twin := s.URI(fmt.Sprintf("h%d_twin%d.journal", idx, n))
			have := s.Stub.PubCount(twin)
			s.Open(twin, ref[d])
			s.WaitPub(twin, have)
			seed := r.U64()
			inline := !(st.inlineK && edited[d])
			a := batteryAnswers(s, uris[d], ref[d], NewRNG(seed), inline)
			b := batteryAnswers(s, twin, ref[d], NewRNG(seed), inline)
			s.Close(twin)
			c.Count("battery_requests", int64(len(a)))
			for k, va := range a {
				if vb := b[k]; va != vb {
					req := k
					if i := strings.IndexByte(k, '@'); i > 0 {
						req = k[:i]
					}
					sig := "C01:battery-mismatch|" + req
					if req == "inlineCompletion" && edited[d] {
						sig += "|unsaved-edit"
					}
					fail("battery-mismatch", sig, fmt.Sprintf("%s differs between the edited document and a fresh document with the same text: %s vs %s", k, oneLine(va, 300), oneLine(vb, 300)), map[string]any{"text": ref[d]})
					return
				}
			}
		}
	}
	if ranged {
		b, _ := json.Marshal(steps)
		c.Nontrivial(HashStr(string(b)))
	}
	if c.Rep.Evaluations%1499 == 0 {
		c.Sample(map[string]any{"case": idx, "steps": steps, "final_texts": ref})
	}
}

func c01Sweep(c *Ctx, st *c01State, k int) {
	s := st.session(c, int64(k)+1<<40)
	doc := c01SweepDocs[k%len(c01SweepDocs)]
	starts, ends := refLines(doc)
	type pos struct{ l, c int }
	var ps []pos
	for l := range starts {
		for _, u := range linePositions(doc[starts[l]:ends[l]]) {
			ps = append(ps, pos{l, u})
		}
		ps = append(ps, pos{l, u16len(doc[starts[l]:ends[l]]) + 2}) // past the line end
	}
	ps = append(ps, pos{len(starts), 0}, pos{len(starts) + 1, 3})
	uri := s.URI(fmt.Sprintf("sweep%d.journal", k))
	n := 0
	for i := range ps {
		for j := i; j < len(ps); j++ {
			for _, ins := range c01SweepIns {
				a, b := ps[i], ps[j]
				if a.l == 0 && a.c == 0 && b.l == 0 && b.c == 0 {
					continue
				}
				ch := refChange{SL: a.l, SC: a.c, EL: b.l, EC: b.c, Text: ins}
				f := changeFeature(doc, ch)
				if st.crlfK && strings.Contains(f, "past-eol-crlf") {
					continue
				}
				want := refApply(doc, ch)
				s.Srv.StoreDocument(uri, doc)
				s.Srv.DidChange(s.Ctx, &protocol.DidChangeTextDocumentParams{
					TextDocument:   protocol.VersionedTextDocumentIdentifier{TextDocumentIdentifier: protocol.TextDocumentIdentifier{URI: uri}, Version: int32(n + 2)},
					ContentChanges: []protocol.TextDocumentContentChangeEvent{toProto(ch)}})
				got, _ := s.Srv.GetDocument(uri)
				n++
				if got != want {
					c.Violate(Violation{Kind: "text-mismatch", Sig: "C01:text-mismatch|" + f, Pool: "clean",
						Detail:  fmt.Sprintf("document %q change %d:%d-%d:%d %q: server %q, client %q", doc, a.l, a.c, b.l, b.c, ins, got, want),
						Witness: map[string]any{"doc": doc, "change": ch, "server": got, "client": want}})
					goto done
				}
			}
		}
	}
done:
	s.Drain()
	s.Close(uri)
	c.Count("sweep_changes", int64(n))
	c.Count("mirror_checks", int64(n))
	c.Nontrivial(HashStr("sweep:" + doc))
}

// ---- wire histories ----

func wireChangeJSON(ch refChange) string {
	t, _ := json.Marshal(ch.Text)
	if ch.Full {
		return fmt.Sprintf(`{"text":%s}`, t)
	}
	return fmt.Sprintf(`{"range":{"start":{"line":%d,"character":%d},"end":{"line":%d,"character":%d}},"text":%s}`, ch.SL, ch.SC, ch.EL, ch.EC, t)
}

func c01WireDoc(r *RNG) string {
	n := r.Range(1, 5)
	var sb strings.Builder
	eol := "\n"
	if r.Chance(1, 4) {
		eol = "\r\n"
	}
	for i := 0; i < n; i++ {
		fmt.Fprintf(&sb, "2019-0%d-1%d %s%s", 1+r.Intn(9), r.Intn(9), Pick(r, []string{"shop a", "café é", "pizza 😀 x", "日本 y", "plain"}), eol)
		if r.Bool() {
			sb.WriteString("    expenses:food  1 USD" + eol + "    assets:cash" + eol)
		}
	}
	return sb.String()
}

func c01Wire(c *Ctx, st *c01State, idx int64) {
	exe := os.Getenv("VERIF_WIRE_EXE")
	if exe == "" {
		c.Inconclusive("wire binary not built")
		return
	}
	r := c.RNG(idx, 7)
	dir := filepath.Join(c.Dir, fmt.Sprintf("w%d", idx))
	os.MkdirAll(dir, 0o755)
	defer os.RemoveAll(dir)
	w, err := StartWire(exe, dir, WireEnv(dir))
	if err != nil {
		c.Inconclusive("cannot start wire binary: " + err.Error())
		return
	}
	defer w.Close()
	if _, err := w.Init("", nil, false); err != nil {
		c.Inconclusive("wire initialize failed: " + err.Error())
		return
	}
	uri := "file://" + filepath.Join(dir, "w.journal")
	ref := c01WireDoc(r)
	var steps []c01Step
	tj, _ := json.Marshal(ref)
	w.NotifyRaw("textDocument/didOpen", fmt.Sprintf(`{"textDocument":{"uri":%q,"languageId":"hledger","version":1,"text":%s}}`, uri, tj))
	steps = append(steps, c01Step{Op: "open", Text: ref})
	ver := 1
	feats := map[string]bool{}
	n := r.Range(1, 6)
	for i := 0; i < n; i++ {
		if r.Chance(1, 10) {
			w.NotifyRaw("textDocument/didClose", fmt.Sprintf(`{"textDocument":{"uri":%q}}`, uri))
			ref = c01WireDoc(r)
			tj, _ := json.Marshal(ref)
			ver = 1
			w.NotifyRaw("textDocument/didOpen", fmt.Sprintf(`{"textDocument":{"uri":%q,"languageId":"hledger","version":1,"text":%s}}`, uri, tj))
			steps = append(steps, c01Step{Op: "close"}, c01Step{Op: "open", Text: ref})
			continue
		}
		k := r.Range(1, 3)
		var parts []string
		var chs []refChange
		for q := 0; q < k; q++ {
			var ch refChange
			if r.Chance(1, 3) {
				// the wire-only case: an empty range at the origin is an insertion, not a replacement
				ch = refChange{Text: Pick(r, []string{"; note\n", "X", "2019-01-01 first\n", ""})}
			} else {
				ch = c01Change(r, ref, true)
			}
			f := changeFeature(ref, ch)
			if st.crlfK && strings.Contains(f, "past-eol-crlf") {
				q--
				continue
			}
			feats[f] = true
			ref = refApply(ref, ch)
			parts = append(parts, wireChangeJSON(ch))
			chs = append(chs, ch)
		}
		ver++
		w.NotifyRaw("textDocument/didChange", fmt.Sprintf(`{"textDocument":{"uri":%q,"version":%d},"contentChanges":[%s]}`, uri, ver, strings.Join(parts, ",")))
		steps = append(steps, c01Step{Op: "change", Changes: chs})
	}
	// answers of the wire server vs. a fresh in-process server opened on the reference text
	s := st.session(c, idx)
	twin := protocol.DocumentURI(uri)
	have := s.Stub.PubCount(twin)
	s.Open(twin, ref)
	s.WaitPub(twin, have)
	defer s.Close(twin)
	id := protocol.TextDocumentIdentifier{URI: twin}
	ctx := context.Background()
	type probe struct {
		method string
		params any
		local  func() any
	}
	probes := []probe{
		{"textDocument/documentSymbol", map[string]any{"textDocument": id}, func() any {
			v, _ := s.Srv.DocumentSymbol(ctx, &protocol.DocumentSymbolParams{TextDocument: id})
			return v
		}},
		{"textDocument/semanticTokens/full", map[string]any{"textDocument": id}, func() any {
			v, _ := s.Srv.SemanticTokensFull(ctx, &protocol.SemanticTokensParams{TextDocument: id})
			if v == nil {
				return nil
			}
			return map[string]any{"data": v.Data}
		}},
		{"textDocument/foldingRange", map[string]any{"textDocument": id}, func() any {
			v, _ := s.Srv.FoldingRanges(ctx, &protocol.FoldingRangeParams{TextDocumentPositionParams: protocol.TextDocumentPositionParams{TextDocument: id}})
			return v
		}},
		{"textDocument/formatting", map[string]any{"textDocument": id, "options": map[string]any{"tabSize": 4, "insertSpaces": true}}, func() any {
			v, _ := s.Srv.Format(ctx, &protocol.DocumentFormattingParams{TextDocument: id})
			return v
		}},
	}
	c.Count("wire_histories", 1)
	for f := range feats {
		c.Count("wire:"+f, 1)
	}
	for _, p := range probes {
		raw, err := w.Call(p.method, p.params, 30*time.Second)
		if err != nil {
			if err == ErrWireTimeout {
				c.Inconclusive("wire request timed out: " + p.method)
				return
			}
			c.Violate(Violation{Kind: "death", Sig: "C01:wire-death", Pool: "clean", Detail: "the server process ended during " + p.method + ": " + oneLine(w.Stderr.String(), 500), Witness: map[string]any{"steps": steps}})
			return
		}
		var got any
		json.Unmarshal(raw, &got)
		if m, ok := got.(map[string]any); ok && p.method == "textDocument/semanticTokens/full" {
			delete(m, "resultId")
		}
		ga, wa := CanonJSON(got), CanonJSON(p.local())
		c.Count("battery_requests", 1)
		if ga != wa {
			var fl []string
			for f := range feats {
				fl = append(fl, f)
			}
			sig := "C01:wire-mismatch"
			if feats["ranged+empty-at-origin"] {
				sig += "|ranged+empty-at-origin"
			}
			c.Violate(Violation{Kind: "text-mismatch", Sig: sig, Pool: "clean",
				Detail:  fmt.Sprintf("%s of the binary after the history differs from a fresh server on the client's text %q: %s vs %s", p.method, ref, oneLine(ga, 300), oneLine(wa, 300)),
				Witness: map[string]any{"steps": steps, "client_text": ref, "change_classes": fl}})
			return
		}
	}
	b, _ := json.Marshal(steps)
	c.Nontrivial(HashStr(string(b)))
}

var _ = utf16.IsSurrogate
