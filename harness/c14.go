package zv

import (
	"fmt"
	"os"
	"path/filepath"
	"regexp"
	"runtime"
	"strconv"
	"strings"
	"sync"
	"sync/atomic"
	"time"

	"github.com/anishathalye/porcupine"

	"github.com/juev/hledger-lsp/internal/ast"
	"github.com/juev/hledger-lsp/internal/include"
	"github.com/juev/hledger-lsp/internal/verifhook"
	"github.com/juev/hledger-lsp/internal/workspace"
)

// C14 Background work never races with, blocks or corrupts later requests.

const c14DirectedN = 3 * 3 * 5 * 2 * 2

func c14Counts(tier string) (stress, replay, lin int64) {
	stress, replay, lin = 500, 4000, 1000
	if tier == "thorough" {
		stress, replay, lin = 6000, 40000, 12000
	}
	// diagnostic aid: VERIF_C14_ONLY=stress|replay|lin runs one monitor only
	switch os.Getenv("VERIF_C14_ONLY") {
	case "stress":
		replay, lin = 0, 0
	case "replay":
		stress, lin = 0, 0
	case "lin":
		stress, replay = 0, 0
	}
	return
}

func init() {
	Register(&Prop{
		ID:         "C14",
		Race:       true,
		Gomaxprocs: 4,
		Rule:       "(1) free-running stress under the race detector: serial streams of 100-1200 notifications/requests (all request kinds, open/change/save/close/re-open, configuration changes with changing payloads) over 1-4 documents of an include workspace, the stub client recording and sharing nothing, seeded yields at the hook points; (2) crash/deadlock: child death, recovered panics, state-based deadlock; (3) sequential-replay equality: the same stream on a reference server drained after every message vs a monitored server whose background goroutines are parked at the gates (client boundary, diag.enter, diag.loaded, loader.read) across the following 0-2 messages; every response must be equal; (5) directed scenarios, all 180 combinations: the analysis of a document that includes another file is held at diag.enter / diag.loaded / loader.read while the included file is saved with new content, edited unsaved, or the include limits change, and a request (completion, references, hover, definition, rename) issued before or after the release must equal the answer of a drained reference server; (4) linearizability (porcupine) of workspace/loader under one writer and 3 concurrent readers with uniquely marked versions, free-running and with the reader held at loader.read across a complete write. Non-trivial = stream with >=1 change and >=1 request while background work was in flight / history with overlapping operations; distinct by stream or history hash.",
		Notes:      []string{"monitor 1 sees only the interleavings the scheduler produced; monitors 3-4 are exhaustive only over the listed gate points", "configuration refreshes are not held across requests in monitor 3 (a request racing a settings change may legitimately see either)", "race reports with repository frames are violations; reports with harness frames only make the run inconclusive"},
		Cases: func(tier string) int64 {
			a, b, d := c14Counts(tier)
			return a + b + d + c14DirectedN
		},
		MustObserve: []string{"stress_messages", "replay_responses_compared", "replay_requests_with_parked_work", "lin_histories", "lin_ops", "directed_scenarios", "directed_analysis_held_across_event"},
		RunCase:     runC14,
	})
}

func runC14(c *Ctx, idx int64) {
	a, b, d := c14Counts(c.Tier)
	switch {
	case idx < a:
		c14Stress(c, idx)
	case idx < a+b:
		c14Replay(c, idx)
	case idx < a+b+d:
		c14Lin(c, idx)
	default:
		if os.Getenv("VERIF_C14_ONLY") == "" || os.Getenv("VERIF_C14_ONLY") == "directed" {
			c14Directed(c, idx, int(idx-a-b-d))
		}
	}
}

// ---------------------------------------------------------------------------
// (1)+(2) free-running stress

func c14Stress(c *Ctx, idx int64) {
	r := c.RNG(idx, 1)
	dir := filepath.Join(c.Dir, fmt.Sprintf("st%d", idx))
	defer os.RemoveAll(dir)
	files := streamFiles(r)
	writeStreamFiles(dir, files)
	// yields at the hook points: they only diversify the overlap and share nothing
	verifhook.Set(func(point, key string) {
		switch time.Now().UnixNano() & 7 {
		case 0, 1:
			runtime.Gosched()
		case 2:
			time.Sleep(20 * time.Microsecond)
		}
	})
	defer verifhook.Set(nil)
	s := NewSession(dir, SessOpt{Root: r.Chance(3, 4), Silent: true, SupportsConfig: true})
	n := r.Range(100, 400)
	if c.Tier == "thorough" {
		n = r.Range(200, 1200)
	}
	msgs := genStream(r, files, n, true, dir)
	tok := map[int]string{}
	changes, reqs := 0, 0
	for i, m := range msgs {
		func() {
			defer func() {
				if p := recover(); p != nil {
					site := topRepoFrame(string(debugStack()))
					c.Violate(Violation{Kind: "panic", Sig: "C14:panic:" + site, Pool: "n/a", Detail: fmt.Sprintf("panic in handler of message %d (%s %s): %v", i, m.Kind, m.Req, p), Witness: map[string]any{"message": m, "stack": trimStack(string(debugStack()))}})
				}
			}()
			execMsg(s, files, m, tok)
		}()
		if m.Kind == "change" || m.Kind == "open" {
			changes++
		}
		if m.Kind == "req" {
			reqs++
		}
	}
	c.Count("stress_messages", int64(len(msgs)))
	c.Count("stress_streams", 1)
	// wait for the background goroutines
	deadline := time.Now().Add(90 * time.Second)
	for {
		g := ServerGoroutines()
		if g.Active == 0 && g.Parked == 0 {
			if g.Blocked > 0 {
				g2 := ServerGoroutines()
				if g2.Active == 0 && g2.Blocked > 0 {
					c.Violate(Violation{Kind: "deadlock", Sig: "C14:deadlock", Pool: "n/a", Detail: "background goroutines remain blocked after the stream ended", Witness: map[string]any{"dump": trimStack(g2.Dump)}})
				}
			}
			break
		}
		if time.Now().After(deadline) {
			c.Inconclusive("background goroutines still running after the stream (watchdog)")
			break
		}
		time.Sleep(200 * time.Microsecond)
	}
	if changes > 0 && reqs > 0 {
		c.Nontrivial(HashStr(fmt.Sprintf("stress|%d|%d|%d", idx, c.Seed, len(msgs))))
	}
	if idx%61 == 0 {
		c.Sample(map[string]any{"case": idx, "monitor": "race-stress", "messages": len(msgs), "first_messages": msgs[:6]})
	}
}

func debugStack() []byte {
	buf := make([]byte, 1<<15)
	n := runtime.Stack(buf, false)
	return buf[:n]
}

// ---------------------------------------------------------------------------
// (3) sequential-replay equality under controlled interleavings

func c14Replay(c *Ctx, idx int64) {
	UnorderedCompletion = true
	r := c.RNG(idx, 2)
	dirR := filepath.Join(c.Dir, fmt.Sprintf("rr%d", idx), "ws")
	dirM := filepath.Join(c.Dir, fmt.Sprintf("rm%d", idx), "ws")
	defer os.RemoveAll(filepath.Dir(dirR))
	defer os.RemoveAll(filepath.Dir(dirM))
	files := streamFiles(r)
	writeStreamFiles(dirR, files)
	writeStreamFiles(dirM, files)
	root := r.Chance(1, 2)
	msgs := genStream(r, files, r.Range(10, 36), r.Chance(1, 4), "DIR")
	// reference: drained after every message
	R := NewSession(dirR, SessOpt{Root: root, SupportsConfig: true})
	R.Drain()
	want := make([]string, len(msgs))
	tokR := map[int]string{}
	for i, m := range msgs {
		resp, isReq := execMsg(R, files, m, tokR)
		if ok, _ := R.Drain(); !ok {
			c.Inconclusive("reference drain watchdog")
			return
		}
		if isReq {
			want[i] = resp
		}
	}
	// monitored: background goroutines parked at the gates
	var points []string
	for _, p := range []string{"diag.enter", "diag.loaded", "loader.read"} {
		if r.Chance(1, 2) {
			points = append(points, p)
		}
	}
	hg := InstallHookGate(points...)
	defer RemoveHookGate()
	M := NewSession(dirM, SessOpt{Root: root, SupportsConfig: true, GatePub: true})
	M.Drain()
	tokM := map[int]string{}
	type item struct {
		pub  *gatedCall
		hook *hookCall
	}
	holds := map[any]int{}
	var trace []string
	parkedDuring := 0
	settle := func() bool {
		for iter := 0; iter < 200; iter++ {
			if _, ok := M.Quiesce(); !ok {
				return false
			}
			released := false
			for _, g := range M.Stub.Gated() {
				h, seen := holds[g]
				if !seen {
					h = r.Intn(3)
					holds[g] = h
				}
				if h == 0 {
					M.Stub.Release(g)
					delete(holds, g)
					released = true
					break
				}
			}
			if released {
				continue
			}
			for _, hc := range hg.Parked() {
				h, seen := holds[hc]
				if !seen {
					h = r.Intn(3)
					holds[hc] = h
				}
				if h == 0 {
					hg.Release(hc)
					delete(holds, hc)
					released = true
					break
				}
			}
			if !released {
				return true
			}
		}
		return true
	}
	fail := func(kind, sig, detail string, extra map[string]any) {
		w := map[string]any{"messages": msgs, "gates": points, "workspace_root": root, "trace": trace}
		for k, v := range extra {
			w[k] = v
		}
		c.Violate(Violation{Kind: kind, Sig: sig, Pool: "n/a", Detail: detail, Witness: w})
	}
	for i, m := range msgs {
		if !settle() {
			c.Inconclusive("quiescence watchdog in replay")
			M.Drain()
			return
		}
		for k := range holds {
			holds[k]--
			if holds[k] < 0 {
				holds[k] = 0
			}
		}
		nparked := len(M.Stub.Gated()) + len(hg.Parked())
		trace = append(trace, fmt.Sprintf("%d:%s%s parked=%d", i, m.Kind, m.Req, nparked))
		var resp string
		var isReq bool
		var pan any
		blocked, bdump, done := M.Do(func() {
			defer func() { pan = recover() }()
			resp, isReq = execMsg(M, files, m, tokM)
		})
		if blocked {
			fail("handler-blocked", "C14:handler-blocked|"+m.Kind+m.Req, fmt.Sprintf("message %d (%s %s) does not return while background work is parked at a gate", i, m.Kind, m.Req), map[string]any{"handler_goroutine": trimStack(bdump)})
			M.Drain()
			<-done
			M.Drain()
			return
		}
		if pan != nil {
			fail("panic", "C14:panic-replay", fmt.Sprintf("panic in message %d: %v", i, pan), nil)
			M.Drain()
			return
		}
		if m.Kind == "cfg" {
			// configuration refreshes are not held across later messages
			if _, ok := M.Quiesce(); !ok {
				c.Inconclusive("quiescence watchdog after configuration change")
				return
			}
		}
		if isReq {
			c.Count("replay_responses_compared", 1)
			if nparked > 0 {
				parkedDuring++
				c.Count("replay_requests_with_parked_work", 1)
			}
			if resp != want[i] {
				fail("stale-response", "C14:stale-response|"+m.Req+"|root="+fmt.Sprint(root), fmt.Sprintf("response to message %d (%s at %d:%d of %s) differs from the sequential replay: %s vs %s", i, m.Req, m.Line, m.Char, files[m.Doc].Name, oneLine(resp, 300), oneLine(want[i], 300)), nil)
				M.Drain()
				return
			}
		}
	}
	ok, dump := M.Drain()
	if !ok {
		c.Inconclusive("drain watchdog in replay")
		return
	}
	if dump != "" {
		fail("deadlock", "C14:deadlock-replay", "server goroutines remain blocked after every gate was released", map[string]any{"dump": trimStack(dump)})
		return
	}
	c.Count("replay_streams", 1)
	if parkedDuring > 0 {
		c.Nontrivial(HashStr(strings.Join(trace, ";") + fmt.Sprint(root, points)))
	}
	if idx%211 == 0 {
		c.Sample(map[string]any{"case": idx, "monitor": "sequential-replay", "gates": points, "workspace_root": root, "trace": trace})
	}
}

// ---------------------------------------------------------------------------
// (4) linearizability of workspace + loader under the server's 1-writer / k-reader pattern

type linIn struct {
	Kind string // write readAll readOne
	File int
	Ver  int
}

// linState: per file the current version and, between the disk write and the invalidation that
// tells the loader about it, the pending version (-1 = none). The server cannot know that a file
// changed on disk before it is notified, so a loader read inside that window may return either.
type linState struct {
	Cur  [2]int
	Pend [2]int
}

// Two independent objects are observed: the workspace view (both files read atomically under
// its lock) and the loader's view of one included file. P-compositionality: the histories of the
// two objects (and of the two files in the loader) are checked separately.
var linModel = porcupine.Model{
	Partition: func(history []porcupine.Operation) [][]porcupine.Operation {
		parts := map[string][]porcupine.Operation{}
		for _, o := range history {
			in := o.Input.(linIn)
			k := "ws"
			if in.Kind == "diskWrite" || in.Kind == "invalidate" || in.Kind == "readOne" {
				k = fmt.Sprintf("ld%d", in.File)
			}
			parts[k] = append(parts[k], o)
		}
		var out [][]porcupine.Operation
		for _, k := range []string{"ws", "ld0", "ld1"} {
			if len(parts[k]) > 0 {
				out = append(out, parts[k])
			}
		}
		return out
	},
	Init: func() interface{} { return linState{Cur: [2]int{0, 0}, Pend: [2]int{-1, -1}} },
	Step: func(state, input, output interface{}) (bool, interface{}) {
		st := state.(linState)
		in := input.(linIn)
		switch in.Kind {
		case "writeWS":
			st.Cur[in.File] = in.Ver
			return true, st
		case "diskWrite":
			st.Pend[in.File] = in.Ver
			return true, st
		case "invalidate":
			st.Cur[in.File] = in.Ver
			st.Pend[in.File] = -1
			return true, st
		case "readAll":
			return output.([2]int) == st.Cur, st
		default:
			v := output.(int)
			return v == st.Cur[in.File] || (st.Pend[in.File] >= 0 && v == st.Pend[in.File]), st
		}
	},
	DescribeOperation: func(input, output interface{}) string {
		in := input.(linIn)
		switch in.Kind {
		case "writeWS":
			return fmt.Sprintf("workspace.update(f%d,v%d)", in.File, in.Ver)
		case "diskWrite":
			return fmt.Sprintf("disk.write(f%d,v%d)", in.File, in.Ver)
		case "invalidate":
			return fmt.Sprintf("loader.invalidate(f%d,v%d)", in.File, in.Ver)
		case "readAll":
			return fmt.Sprintf("workspace.readAll()->%v", output)
		}
		return fmt.Sprintf("loader.read(f%d)->%v", in.File, output)
	},
}

var markerRe = regexp.MustCompile(`^v:(\d):(\d+)$`)

func linContent(f, ver int) string {
	return fmt.Sprintf("account v:%d:%d\n\n2019-01-01 marker\n    v:%d:%d  1 USD\n    assets:cash\n", f, ver, f, ver)
}

func versionsFromNames(names []string) [2]int {
	st := [2]int{-1, -1}
	for _, n := range names {
		if m := markerRe.FindStringSubmatch(n); m != nil {
			f, _ := strconv.Atoi(m[1])
			v, _ := strconv.Atoi(m[2])
			if f < 2 {
				if st[f] != -1 && st[f] != v {
					st[f] = -2 // two versions of one file visible at once
				} else {
					st[f] = v
				}
			}
		}
	}
	return st
}

func c14Lin(c *Ctx, idx int64) {
	r := c.RNG(idx, 3)
	dir := filepath.Join(c.Dir, fmt.Sprintf("lin%d", idx))
	os.MkdirAll(dir, 0o755)
	defer os.RemoveAll(dir)
	paths := []string{filepath.Join(dir, "f0.journal"), filepath.Join(dir, "f1.journal")}
	rootPath := filepath.Join(dir, "main.journal")
	os.WriteFile(rootPath, []byte("include f0.journal\ninclude f1.journal\n"), 0o644)
	os.WriteFile(paths[0], []byte(linContent(0, 0)), 0o644)
	os.WriteFile(paths[1], []byte(linContent(1, 0)), 0o644)
	loader := include.NewLoader()
	ws := workspace.NewWorkspace(dir, loader)
	if err := ws.Initialize(); err != nil {
		c.Inconclusive("workspace init: " + err.Error())
		return
	}
	controlled := r.Chance(1, 3)
	var hg *HookGate
	if controlled {
		hg = InstallHookGate("loader.read")
		hg.AnyGoroutine = true
		defer RemoveHookGate()
	}
	var clock int64
	var mu sync.Mutex
	var ops []porcupine.Operation
	record := func(client int, in linIn, call int64, out any) {
		ret := atomic.AddInt64(&clock, 1)
		mu.Lock()
		ops = append(ops, porcupine.Operation{ClientId: client, Input: in, Call: call, Output: out, Return: ret})
		mu.Unlock()
	}
	doWrite := func(f, ver int) {
		content := linContent(f, ver)
		// atomic replace: a reader sees the old or the new file, never a truncated one
		tmp := paths[f] + ".tmp"
		os.WriteFile(tmp, []byte(content), 0o644)
		callD := atomic.AddInt64(&clock, 1)
		os.Rename(tmp, paths[f])
		record(0, linIn{Kind: "diskWrite", File: f, Ver: ver}, callD, nil)
		callWS := atomic.AddInt64(&clock, 1)
		ws.UpdateFile(paths[f], content)
		record(0, linIn{Kind: "writeWS", File: f, Ver: ver}, callWS, nil)
		callI := atomic.AddInt64(&clock, 1)
		loader.InvalidateFile(paths[f])
		record(0, linIn{Kind: "invalidate", File: f, Ver: ver}, callI, nil)
	}
	readers := []func(client int, rr *RNG){
		func(client int, rr *RNG) {
			call := atomic.AddInt64(&clock, 1)
			var names []string
			for k := range ws.GetDeclaredAccounts() {
				names = append(names, k)
			}
			record(client, linIn{Kind: "readAll"}, call, versionsFromNames(names))
		},
		func(client int, rr *RNG) {
			call := atomic.AddInt64(&clock, 1)
			snap := ws.IndexSnapshot()
			var names []string
			if snap.Accounts != nil {
				names = snap.Accounts.All
			}
			record(client, linIn{Kind: "readAll"}, call, versionsFromNames(names))
		},
		func(client int, rr *RNG) {
			f := rr.Intn(2)
			call := atomic.AddInt64(&clock, 1)
			res, _ := loader.LoadFromContent(rootPath, fmt.Sprintf("include f%d.journal\n", f))
			v := -1
			if res != nil {
				if j := res.Files[paths[f]]; j != nil {
					var names []string
					for _, d := range j.Directives {
						if ad, ok := d.(ast.AccountDirective); ok {
							names = append(names, ad.Account.Name)
						}
					}
					v = versionsFromNames(names)[f]
				}
			}
			record(client, linIn{Kind: "readOne", File: f}, call, v)
		},
	}
	vers := [2]int{0, 0}
	if controlled {
		// a reader is held between reading an included file and caching it, across a complete write
		f := r.Intn(2)
		_ = f
		loader.InvalidateFile(paths[0])
		loader.InvalidateFile(paths[1])
		done := make(chan struct{})
		go func() { readers[2](1, NewRNG(uint64(f)+uint64(idx)*2)); close(done) }()
		// wait until the reader is parked at loader.read (or finished without reaching it)
		deadline := time.Now().Add(30 * time.Second)
		finished := false
		for len(hg.Parked()) == 0 && !finished {
			select {
			case <-done:
				finished = true
			default:
			}
			if time.Now().After(deadline) {
				break
			}
			time.Sleep(50 * time.Microsecond)
		}
		if !finished && len(hg.Parked()) > 0 {
			c.Count("lin_reader_held_across_write", 1)
		}
		hg.SetPoints()
		// the held reader read some file; write both files completely meanwhile
		for ff := 0; ff < 2; ff++ {
			vers[ff]++
			doWrite(ff, vers[ff])
		}
		hg.ReleaseAll()
		<-done
		c.Count("lin_controlled_histories", 1)
		// sequential reads afterwards must see the written versions
		for k := 0; k < 4; k++ {
			readers[2](2, NewRNG(uint64(k), uint64(idx)))
			readers[k%2](3, NewRNG(uint64(k)))
		}
	} else {
		nw := r.Range(3, 8)
		var wg sync.WaitGroup
		stop := make(chan struct{})
		for cl := 1; cl <= 3; cl++ {
			wg.Add(1)
			rr := NewRNG(uint64(idx), uint64(cl), c.Seed)
			go func(cl int, rr *RNG) {
				defer wg.Done()
				for n := 0; n < 10; n++ {
					select {
					case <-stop:
						return
					default:
					}
					readers[rr.Intn(len(readers))](cl, rr)
					if rr.Chance(1, 3) {
						runtime.Gosched()
					}
				}
			}(cl, rr)
		}
		for i := 0; i < nw; i++ {
			f := r.Intn(2)
			vers[f]++
			doWrite(f, vers[f])
			if r.Bool() {
				runtime.Gosched()
			}
		}
		close(stop)
		wg.Wait()
	}
	mu.Lock()
	hist := append([]porcupine.Operation(nil), ops...)
	mu.Unlock()
	c.Count("lin_histories", 1)
	c.Count("lin_ops", int64(len(hist)))
	overlap := false
	for i := range hist {
		for k := range hist {
			if i != k && hist[i].Call < hist[k].Return && hist[k].Call < hist[i].Return {
				overlap = true
			}
		}
	}
	if overlap || controlled {
		c.Nontrivial(HashStr(fmt.Sprintf("lin|%d|%d|%v", idx, len(hist), controlled)))
	}
	res, info := porcupine.CheckOperationsVerbose(linModel, hist, 30*time.Second)
	_ = info
	switch res {
	case porcupine.Ok:
	case porcupine.Unknown:
		c.Inconclusive("linearizability checker timed out")
	default:
		var desc []string
		for _, o := range hist {
			desc = append(desc, fmt.Sprintf("c%d [%d,%d] %s", o.ClientId, o.Call, o.Return, linModel.DescribeOperation(o.Input, o.Output)))
		}
		sig := "C14:nonlinearizable|free-running"
		if controlled {
			sig = "C14:nonlinearizable|reader-held-at-loader.read"
		}
		c.Violate(Violation{Kind: "nonlinearizable", Sig: sig, Pool: "n/a",
			Detail:  "history of workspace/loader operations is not linearizable against the sequential model (state = version per file)",
			Witness: map[string]any{"history": desc, "controlled": controlled}})
	}
	if idx%97 == 0 {
		var desc []string
		for _, o := range hist {
			desc = append(desc, fmt.Sprintf("c%d [%d,%d] %s", o.ClientId, o.Call, o.Return, linModel.DescribeOperation(o.Input, o.Output)))
		}
		c.Sample(map[string]any{"case": idx, "monitor": "linearizability", "controlled": controlled, "history": desc, "verdict": string(res)})
	}
}

// ---------------------------------------------------------------------------
// (5) directed scenarios: an event that invalidates an include tree arrives while the analysis
// that computes the tree is held

func c14Directed(c *Ctx, idx int64, k int) {
	gates := []string{"diag.enter", "diag.loaded", "loader.read"}
	events := []string{"save-included", "limits-change", "save-included-unopened"}
	reqs := []string{"completion", "references", "hover", "definition", "rename"}
	gate := gates[k%3]
	k /= 3
	event := events[k%3]
	k /= 3
	req := reqs[k%5]
	k /= 5
	root := k%2 == 1
	k /= 2
	reqWhileHeld := k%2 == 1
	mainText := "include a.journal\n\n2019-01-05 shop\n    expenses:food  5 USD\n    assets:cash\n"
	aText := func(v int) string {
		return fmt.Sprintf("account expenses:v%d\n\n2019-01-0%d shop\n    expenses:food  %d USD\n    expenses:v%d  1 USD\n    assets:cash\n", v, v+1, v+7, v)
	}
	run := func(tag string, gated bool) (string, bool) {
		dir := filepath.Join(c.Dir, fmt.Sprintf("dir%d%s", idx, tag), "ws")
		os.MkdirAll(dir, 0o755)
		defer os.RemoveAll(filepath.Dir(dir))
		os.WriteFile(filepath.Join(dir, "main.journal"), []byte(mainText), 0o644)
		os.WriteFile(filepath.Join(dir, "a.journal"), []byte(aText(0)), 0o644)
		var hg *HookGate
		if gated {
			hg = InstallHookGate(gate)
			defer RemoveHookGate()
		}
		s := NewSession(dir, SessOpt{Root: root, SupportsConfig: true})
		s.Drain()
		um, ua := s.URI("main.journal"), s.URI("a.journal")
		if b, _, done := s.Do(func() { s.Open(um, mainText) }); b {
			<-done
		}
		if gated {
			s.Quiesce()
			if len(hg.Parked()) > 0 {
				c.Count("directed_analysis_held_across_event", 1)
			}
		} else {
			s.Drain()
		}
		switch event {
		case "save-included":
			s.Do(func() { s.Open(ua, aText(0)) })
			if !gated {
				s.Drain()
			}
			s.Do(func() { s.ChangeFull(ua, aText(1)) })
			os.WriteFile(filepath.Join(dir, "a.journal"), []byte(aText(1)), 0o644)
			s.Do(func() { s.Save(ua) })
		case "save-included-unopened":
			os.WriteFile(filepath.Join(dir, "a.journal"), []byte(aText(1)), 0o644)
			s.Do(func() { s.Save(ua) })
		case "limits-change":
			s.Stub.SetConfigAnswers(map[string]any{"limits": map[string]any{"maxIncludeDepth": 1}})
			s.Do(func() { s.Srv.DidChangeConfiguration(s.Ctx, nil) })
			// the refresh itself is not held
			deadline := time.Now().Add(30 * time.Second)
			for s.Stub.ConfigCalls() == 0 && time.Now().Before(deadline) {
				time.Sleep(100 * time.Microsecond)
			}
			s.Quiesce()
		}
		if !gated {
			s.Drain()
		}
		ask := func() string {
			tok := map[int]string{}
			files := []wsFile{{Name: "main.journal", Variants: []string{mainText}}}
			m := streamMsg{Kind: "req", Doc: 0, Req: req, Line: 3, Char: 10}
			if req == "completion" {
				m.Char = 13
			}
			var out string
			s.Do(func() { out, _ = execMsg(s, files, m, tok) })
			return out
		}
		var got string
		if gated && reqWhileHeld {
			got = ask()
			hg.SetPoints()
			hg.ReleaseAll()
			s.Drain()
		} else {
			if gated {
				hg.SetPoints()
				hg.ReleaseAll()
			}
			s.Drain()
			got = ask()
		}
		return got, true
	}
	UnorderedCompletion = true
	want, _ := run("r", false)
	got, _ := run("m", true)
	c.Count("directed_scenarios", 1)
	c.Nontrivial(HashStr(fmt.Sprintf("directed|%s|%s|%s|%v|%v", gate, event, req, root, reqWhileHeld)))
	if got != want {
		c.Violate(Violation{Kind: "stale-response", Sig: fmt.Sprintf("C14:directed-stale-response|%s|%s|root=%v", gate, event, root), Pool: "n/a",
			Detail:  fmt.Sprintf("%s on main.journal (analysis held at %s while: %s; request %s the release) differs from a drained server: %s vs %s", req, gate, event, map[bool]string{true: "before", false: "after"}[reqWhileHeld], oneLine(got, 300), oneLine(want, 300)),
			Witness: map[string]any{"gate": gate, "event": event, "request": req, "workspace_root": root, "request_while_held": reqWhileHeld}})
	}
	if k == 0 && idx%7 == 0 {
		c.Sample(map[string]any{"case": idx, "monitor": "directed", "gate": gate, "event": event, "request": req, "workspace_root": root, "equal": got == want})
	}
}
