package zv

import (
	"fmt"
	"sort"
	"strings"
)

// ---------------------------------------------------------------------------
// Generator for G. Every knob has a designated plain setting; choosing anything else records
// a feature "<knob>.<setting>" on the entry being generated.

type Gen struct {
	r      *RNG
	avoid  map[string]bool // single features never chosen
	bad    [][]string      // feature sets an entry must not contain (clean pool)
	force  map[string]bool // features chosen whenever their knob is consulted
	feats  map[string]bool // features of the entry under construction
	budget int             // remaining non-plain choices for the entry
	// symbol pools (shared between the files of a workspace)
	Accounts    []pooled
	Payees      []pooled
	Commodities []commoditySpec
	TagNames    []string
	cfeat       map[string][]string
	YearSeen    int // a Y directive was emitted earlier in this file
	MaxYear     int
	NoInclude   bool
	UniverseOn  bool
	Universe    map[string]bool
}

type commoditySpec struct {
	Sym  string
	Form string
}

// pooled is a symbol together with the features its text carries, so that an entry reusing it
// is attributed those features as well.
type pooled struct {
	V string
	F []string
}

func (g *Gen) snapshot() map[string]bool {
	m := make(map[string]bool, len(g.feats))
	for f := range g.feats {
		m[f] = true
	}
	return m
}

func (g *Gen) since(before map[string]bool) []string {
	var out []string
	for f := range g.feats {
		if !before[f] {
			out = append(out, f)
		}
	}
	sort.Strings(out)
	return out
}

func (g *Gen) markAll(fs []string) {
	for _, f := range fs {
		g.feats[f] = true
	}
}

// flag is a yes/no structural choice with its own probability; it is a feature when taken and
// can be forced like a knob setting. On a forced (plain) background it is off unless forced.
func (g *Gen) flag(name string, num, den int) bool {
	if g.UniverseOn {
		g.Universe[name] = true
	}
	if g.force[name] {
		g.feats[name] = true
		return true
	}
	if len(g.force) > 0 || g.avoid[name] {
		return false
	}
	if g.r.Chance(num, den) {
		g.feats[name] = true
		return true
	}
	return false
}

func NewGen(r *RNG, bad [][]string) *Gen {
	g := &Gen{r: r, avoid: map[string]bool{}, force: map[string]bool{}, MaxYear: 2019, NoInclude: true}
	for _, s := range bad {
		if len(s) == 1 {
			g.avoid[s[0]] = true
		} else {
			g.bad = append(g.bad, s)
		}
	}
	return g
}

func (g *Gen) beginEntry() {
	g.feats = map[string]bool{}
	switch x := g.r.Intn(100); {
	case x < 15:
		g.budget = 0
	case x < 45:
		g.budget = 1
	case x < 75:
		g.budget = 2
	default:
		g.budget = 3
	}
	if len(g.force) > 0 {
		g.budget = 0 // forced features only, on a plain background
	}
}

func (g *Gen) entryFeats() []string {
	out := make([]string, 0, len(g.feats))
	for f := range g.feats {
		out = append(out, f)
	}
	sort.Strings(out)
	return out
}

// knob chooses a setting: plain, or one of alts (recorded as feature "name.alt").
func (g *Gen) knob(name string, alts ...string) string {
	if g.UniverseOn {
		for _, a := range alts {
			g.Universe[name+"."+a] = true
		}
	}
	for _, a := range alts {
		if g.force[name+"."+a] {
			g.feats[name+"."+a] = true
			return a
		}
	}
	if g.budget <= 0 {
		return ""
	}
	// each knob turns non-plain with probability ~1/4 while budget remains
	if !g.r.Chance(1, 4) {
		return ""
	}
	var ok []string
	for _, a := range alts {
		if !g.avoid[name+"."+a] {
			ok = append(ok, a)
		}
	}
	if len(ok) == 0 {
		return ""
	}
	a := Pick(g.r, ok)
	g.feats[name+"."+a] = true
	g.budget--
	return a
}

// mark records a feature decided elsewhere (structural facts such as "has a cost").
func (g *Gen) mark(f string) { g.feats[f] = true }

func containsAll(have map[string]bool, set []string) bool {
	for _, f := range set {
		if !have[f] {
			return false
		}
	}
	return true
}

func (g *Gen) entryIsBad() bool {
	for _, s := range g.bad {
		if containsAll(g.feats, s) {
			return true
		}
	}
	for f := range g.feats {
		if g.avoid[f] {
			return true
		}
	}
	return false
}

// ---------------------------------------------------------------------------
// Vocabulary

var wordsLower = []string{"grocery", "store", "rent", "coffee", "salary", "lunch", "books", "taxi", "market", "dinner", "fuel", "gift"}
var segLower = []string{"bank", "checking", "cash", "food", "rent", "wallet", "savings", "misc", "travel", "fees"}
var categories = []string{"assets", "expenses", "liabilities", "equity", "income", "revenues"}
var nonCategories = []string{"wallet", "misc", "budget", "people"}
var tagNamePool = []string{"project", "trip", "ref", "client", "Item_1", "x-id"}
var tagValuePool = []string{"alpha", "beta", "2024", "home office", "Q1", "x1"}

func (g *Gen) word() string { return Pick(g.r, wordsLower) }

func (g *Gen) descText() string {
	n := g.r.Range(1, 3)
	ws := make([]string, n)
	for i := range ws {
		ws[i] = g.word()
	}
	switch g.knob("desc", "allcaps-first", "digit-first", "colon", "currency-first", "currency-inside", "punct", "bmp", "nonbmp", "dblspace", "quote-odd") {
	case "allcaps-first":
		ws[0] = Pick(g.r, []string{"AMAZON", "ATM", "VISA", "IKEA"})
	case "digit-first":
		ws[0] = Pick(g.r, []string{"7eleven", "24h", "3com", "1st"})
		if len(ws) == 1 {
			ws = append(ws, g.word())
		}
	case "colon":
		ws = append(ws[:1], append([]string{Pick(g.r, []string{"re:order", "note: paid", "a:b"})}, ws[1:]...)...)
	case "currency-first":
		ws = append([]string{Pick(g.r, []string{"$5 deal", "€uro shop", "£ store"})}, ws...)
	case "currency-inside":
		ws = append(ws, Pick(g.r, []string{"for $5", "5€ menu", "cost ¥"}))
	case "punct":
		ws = append(ws, Pick(g.r, []string{"(downtown)", "[north]", "@home", "a=b", "wow!", "5 * 3", `say "hi"`, "#42"}))
	case "quote-odd":
		// an inch mark: one double quote that nothing closes
		ws = append(ws, Pick(g.r, []string{`12" pizza`, `2" pipe`, `24" monitor`}))
	case "bmp":
		ws[g.r.Intn(len(ws))] = Pick(g.r, []string{"café", "Магазин", "日本食堂", "naïve"})
	case "nonbmp":
		ws[g.r.Intn(len(ws))] = Pick(g.r, []string{"🍕pizza", "𝄞music", "shop🛒"})
	case "dblspace":
		if len(ws) == 1 {
			ws = append(ws, g.word())
		}
		return ws[0] + "  " + strings.Join(ws[1:], " ")
	}
	return strings.Join(ws, " ")
}

func (g *Gen) segment(first bool) string {
	s := Pick(g.r, segLower)
	switch g.knob("acct", "space", "digits", "upper", "bmp", "nonbmp", "nonbmp-letter", "punct") {
	case "space":
		s = Pick(g.r, []string{"credit card", "my bank", "big store"})
	case "digits":
		s = Pick(g.r, []string{"acct1", "b2b", "visa4242"})
	case "upper":
		s = Pick(g.r, []string{"Bank", "VISA", "myBank"})
	case "bmp":
		s = Pick(g.r, []string{"café", "Активы", "銀行"})
	case "nonbmp":
		s = Pick(g.r, []string{"x🍕food", "fun🎉"})
	case "nonbmp-letter":
		s = Pick(g.r, []string{"𝒜cct", "a𝓑c"})
	case "punct":
		s = Pick(g.r, []string{"a&b", "o'neil", "v1.2", "in/out", "c#", "a+b"})
	}
	return s
}

func (g *Gen) newAccountName() string {
	n := g.r.Range(2, 3)
	if g.knob("acct", "four-seg") == "four-seg" {
		n = 4
	}
	segs := make([]string, n)
	if g.knob("acct", "noncategory") == "noncategory" {
		segs[0] = Pick(g.r, nonCategories)
	} else {
		segs[0] = Pick(g.r, categories)
	}
	for i := 1; i < n; i++ {
		segs[i] = g.segment(false)
	}
	return strings.Join(segs, ":")
}

func (g *Gen) account() string {
	if len(g.Accounts) > 0 && len(g.force) == 0 && g.r.Chance(3, 5) {
		a := Pick(g.r, g.Accounts)
		g.markAll(a.F)
		return a.V
	}
	before := g.snapshot()
	a := g.newAccountName()
	g.Accounts = append(g.Accounts, pooled{a, g.since(before)})
	return a
}

var plainCommodities = []commoditySpec{mkc("USD", "code-right"), mkc("EUR", "code-right"), mkc("GBP", "code-right"), mkc("CHF", "code-right")}

func mkc(sym, form string) commoditySpec { return commoditySpec{sym, form} }

func (g *Gen) commodity() commoditySpec {
	c := Pick(g.r, plainCommodities)
	switch g.knob("cmdty", "sym-left", "sym-right", "code-left", "code-left-nospace", "lower-right", "quoted-right", "quoted-left", "none", "bmp-right", "quoted-symbols") {
	case "sym-left":
		c = commoditySpec{Pick(g.r, []string{"$", "€", "£", "¥", "₽", "₴"}), "sym-left"}
	case "sym-right":
		c = commoditySpec{Pick(g.r, []string{"€", "₽", "$"}), "sym-right"}
	case "code-left":
		c = commoditySpec{Pick(g.r, []string{"USD", "EUR", "BTC"}), "code-left"}
	case "code-left-nospace":
		c = commoditySpec{Pick(g.r, []string{"USD", "EUR", "MAU"}), "code-left-nospace"}
	case "lower-right":
		c = commoditySpec{Pick(g.r, []string{"hours", "apples", "Rub", "kWh"}), "lower-right"}
	case "quoted-right":
		c = commoditySpec{Pick(g.r, []string{"green apples", "AAPL 2024", "no-1"}), "quoted-right"}
	case "quoted-left":
		c = commoditySpec{Pick(g.r, []string{"green apples", "X 1"}), "quoted-left"}
	case "quoted-symbols":
		// letters plus characters of the Unicode symbol classes: no blank, digit or punctuation
		c = commoditySpec{Pick(g.r, []string{"CL=F", "A+B", "X<Y", "^GSPC", "a~b", "P|Q", "😀C", "x@y", "₹", "$$", "¢"}), "quoted-right"}
	case "none":
		c = mkc("", "none")
	case "code-digits":
		c = commoditySpec{Pick(g.r, []string{"USD2024", "VTI1"}), "code-right"}
	case "bmp-right":
		c = commoditySpec{Pick(g.r, []string{"Руб", "円"}), "lower-right"}
	}
	return c
}

func digits(r *RNG, n int, noLeadZero bool) string {
	b := make([]byte, n)
	for i := range b {
		b[i] = byte('0' + r.Intn(10))
	}
	if noLeadZero && n > 0 && b[0] == '0' {
		b[0] = byte('1' + r.Intn(9))
	}
	return string(b)
}

// number fills Num/Notation of a. positive magnitude < 10^13, ≤ 12 decimals.
func (g *Gen) number(a *MAmount) {
	intLen := g.r.Range(1, 4)
	a.Num.Int = digits(g.r, intLen, true)
	a.Notation = "int"
	switch g.knob("num", "point", "comma", "grp,.", "grp.,", "grp_.", "grp_,", "trail", "exp", "exp-comma", "long-frac", "big", "zero-int") {
	case "point":
		a.Notation = "point"
		a.Num.Frac = digits(g.r, Pick(g.r, []int{1, 2, 2, 2, 4, 5}), false)
	case "comma":
		a.Notation = "comma"
		a.Num.Frac = digits(g.r, Pick(g.r, []int{1, 2, 2, 2, 4, 5}), false)
	case "grp,.":
		a.Notation = "grp,."
		a.Num.Int = digits(g.r, g.r.Range(4, 9), true)
		a.Num.Frac = digits(g.r, Pick(g.r, []int{1, 2, 2, 4}), false)
	case "grp.,":
		a.Notation = "grp.,"
		a.Num.Int = digits(g.r, g.r.Range(4, 9), true)
		a.Num.Frac = digits(g.r, Pick(g.r, []int{1, 2, 2, 4}), false)
	case "grp_.":
		a.Notation = "grp_."
		a.Num.Int = digits(g.r, g.r.Range(4, 9), true)
		if g.r.Bool() {
			a.Num.Frac = digits(g.r, Pick(g.r, []int{1, 2, 4}), false)
		}
	case "grp_,":
		a.Notation = "grp_,"
		a.Num.Int = digits(g.r, g.r.Range(4, 9), true)
		a.Num.Frac = digits(g.r, Pick(g.r, []int{1, 2, 4}), false)
	case "trail":
		a.Notation = "trail"
	case "exp":
		a.Notation = "exp"
		a.Num.HasExp = true
		a.Num.Int = digits(g.r, g.r.Range(1, 2), true)
		if g.r.Bool() {
			a.Num.Frac = digits(g.r, g.r.Range(1, 2), false)
		}
		a.Num.Exp = Pick(g.r, []int{3, 2, 1, -1, -2, -3, 6})
		a.ExpStyle = Pick(g.r, []string{"E.", "e.", "E.+"})
	case "exp-comma":
		a.Notation = "exp"
		a.Num.HasExp = true
		a.Num.Int = digits(g.r, 1, true)
		a.Num.Frac = digits(g.r, g.r.Range(1, 2), false)
		a.Num.Exp = Pick(g.r, []int{3, 2, -2})
		a.ExpStyle = "E,"
	case "long-frac":
		a.Notation = "point"
		a.Num.Frac = digits(g.r, g.r.Range(6, 12), false)
	case "big":
		a.Notation = "int"
		a.Num.Int = digits(g.r, g.r.Range(8, 13), true)
	case "zero-int":
		a.Notation = "point"
		a.Num.Int = "0"
		// "0.125" is unambiguous (a group mark cannot follow a zero integer part)
		a.Num.Frac = digits(g.r, Pick(g.r, []int{1, 2, 3, 3, 4}), false)
	}
}

func (g *Gen) amountWith(c commoditySpec, allowNeg bool) *MAmount {
	a := &MAmount{Commodity: c.Sym, Form: c.Form}
	g.number(a)
	if c.Form == "code-left-nospace" {
		a.NoSpace = true
	}
	if (c.Form == "sym-right" || c.Form == "code-right") && g.knob("amt", "nospace") == "nospace" {
		a.NoSpace = true
	}
	if c.Form == "sym-right" && !a.NoSpace && g.r.Bool() {
		a.NoSpace = true
	}
	if allowNeg && g.r.Chance(2, 5) {
		a.Neg = true
		a.Sign = "-num"
		if a.Left() {
			switch g.knob("sign", "precomm") {
			case "precomm":
				a.Sign = "-precomm"
			default:
				a.Sign = "-postcomm"
			}
		}
	} else if allowNeg {
		if g.knob("sign", "plus") == "plus" {
			a.Sign = "+num"
			if a.Left() {
				a.Sign = Pick(g.r, []string{"+precomm", "+postcomm"})
			}
		}
	}
	return a
}

func (g *Gen) pickCommodity() commoditySpec {
	if len(g.Commodities) > 0 && len(g.force) == 0 && g.r.Chance(3, 5) {
		c := Pick(g.r, g.Commodities)
		g.markAll(g.cfeat[c.Sym+"|"+c.Form])
		return c
	}
	before := g.snapshot()
	c := g.commodity()
	if g.cfeat == nil {
		g.cfeat = map[string][]string{}
	}
	g.cfeat[c.Sym+"|"+c.Form] = g.since(before)
	g.Commodities = append(g.Commodities, c)
	return c
}

func (g *Gen) amount(allowNeg bool) *MAmount { return g.amountWith(g.pickCommodity(), allowNeg) }

func (g *Gen) tags() []MTag {
	n := 1
	if g.knob("tags", "two") == "two" {
		n = 2
	}
	var out []MTag
	for i := 0; i < n; i++ {
		name := Pick(g.r, tagNamePool)
		if len(g.TagNames) > 0 && g.r.Bool() {
			name = Pick(g.r, g.TagNames)
		} else {
			g.TagNames = append(g.TagNames, name)
		}
		t := MTag{Name: name, Value: Pick(g.r, tagValuePool)}
		switch g.knob("tag", "empty", "date", "date-empty", "date-invalid", "bmp-value") {
		case "empty":
			t.Value = ""
		case "date":
			t.Name = Pick(g.r, []string{"date", "date2"})
			t.Value = Pick(g.r, []string{"2018-03-04", "2018/3/4", "3.4"})
		case "date-empty":
			t.Name = Pick(g.r, []string{"date", "date2"})
			t.Value = ""
		case "date-invalid":
			t.Name = "date"
			t.Value = Pick(g.r, []string{"soon", "2018-13", "x/y"})
		case "bmp-value":
			t.Value = Pick(g.r, []string{"café", "домой"})
		}
		// duplicate tag names in one comment make "which value" ambiguous for hover; avoid
		dup := false
		for _, o := range out {
			if o.Name == t.Name {
				dup = true
			}
		}
		if !dup {
			out = append(out, t)
		}
	}
	if len(out) == 2 && g.flag("tag.value-names-next", 1, 4) {
		// the first tag's value contains the second tag's name followed by a colon ("ref:id:7, id:9")
		out[0].Value = out[1].Name + ":7"
	}
	return out
}

func (g *Gen) comment(pos string) *MComment {
	c := &MComment{Lead: " "}
	switch g.knob(pos+"lead", "nolead", "lead2") {
	case "nolead":
		c.Lead = ""
	case "lead2":
		c.Lead = "  "
	}
	switch g.knob(pos, "tags", "free-tags", "bmp", "nonbmp", "free-names-tag") {
	case "tags":
		c.Tags = g.tags()
	case "free-tags":
		c.Free = g.word() + " " + g.word()
		c.Tags = g.tags()
	case "free-names-tag":
		// the free text in front of the tags uses a tag's name as an ordinary word (or word prefix)
		c.Tags = g.tags()
		if len(c.Tags) > 0 {
			n := c.Tags[g.r.Intn(len(c.Tags))].Name
			c.Free = Pick(g.r, []string{"paid by " + n, n + "s list", "see " + n + " below", n})
		} else {
			c.Free = g.word()
		}
	case "bmp":
		c.Free = Pick(g.r, []string{"déjà vu", "заметка", "メモ"})
	case "nonbmp":
		c.Free = Pick(g.r, []string{"yum 🍕", "🎵 la"})
	default:
		c.Free = g.word()
		if g.r.Bool() {
			c.Free += " " + g.word()
		}
	}
	return c
}

func (g *Gen) date() MDate {
	d := MDate{Y: g.r.Range(1990, g.MaxYear), M: g.r.Range(1, 12), D: g.r.Range(1, 28), Sep: '-', Pad: true}
	switch g.knob("date", "slash", "dot", "nopad") {
	case "slash":
		d.Sep = '/'
	case "dot":
		d.Sep = '.'
	case "nopad":
		d.Pad = false
		if d.M >= 10 && d.D >= 10 {
			d.M = g.r.Range(1, 9)
		}
	}
	if g.YearSeen != 0 && g.knob("date", "partial") == "partial" {
		d.Partial = true
		d.Y = g.YearSeen
	}
	return d
}

func (g *Gen) posting(withAmount bool) *MPosting {
	p := &MPosting{Indent: "    ", Sep: "  ", CGap: "  "}
	switch g.knob("indent", "1", "2", "3", "6", "8", "tab") {
	case "1":
		p.Indent = " "
	case "2":
		p.Indent = "  "
	case "3":
		p.Indent = "   "
	case "6":
		p.Indent = "      "
	case "8":
		p.Indent = "        "
	case "tab":
		p.Indent = "\t"
	}
	switch g.knob("pstatus", "star", "bang") {
	case "star":
		p.Status = "*"
	case "bang":
		p.Status = "!"
	}
	switch g.knob("virtual", "paren", "bracket") {
	case "paren":
		p.Virtual = "("
	case "bracket":
		p.Virtual = "["
	}
	p.Account = g.account()
	if withAmount {
		switch g.knob("sep", "wide", "tab") {
		case "wide":
			p.Sep = strings.Repeat(" ", g.r.Range(3, 10))
		case "tab":
			p.Sep = "\t"
		}
		p.Amount = g.amount(true)
		if g.flag("has.cost", 1, 6) {
			cs := g.pickCommodity()
			for k := 0; k < 5 && cs.Sym == p.Amount.Commodity; k++ {
				cs = g.pickCommodity()
			}
			p.Cost = &MCost{Total: g.flag("has.totalcost", 1, 3), Amt: *g.amountWith(cs, false)}
		}
		if g.flag("has.assert", 1, 8) {
			as := &MAssert{Sep: "  ", Amt: *g.amountWith(mkc(p.Amount.Commodity, p.Amount.Form), true)}
			if g.knob("assert", "strict", "onespace") == "strict" {
				as.Strict = true
			}
			p.Assert = as
		}
	} else if g.flag("has.assert-noamount", 1, 12) {
		// assertion without amount
		p.Assert = &MAssert{Sep: "  ", Amt: *g.amount(true)}
	}
	if g.flag("has.pcomment", 1, 4) {
		p.Comment = g.comment("pcmt")
		switch g.knob("cgap", "1", "wide") {
		case "1":
			p.CGap = " "
		case "wide":
			p.CGap = strings.Repeat(" ", g.r.Range(3, 6))
		}
	}
	return p
}

func (g *Gen) tx() *MTx {
	t := &MTx{Date: g.date(), DescKind: "plain", HCGap: "  "}
	if g.knob("hdr", "date2") == "date2" {
		d2 := g.date()
		d2.Partial = false
		t.Date2 = &d2
	}
	switch g.knob("status", "star", "bang") {
	case "star":
		t.Status = "*"
	case "bang":
		t.Status = "!"
	}
	switch g.knob("code", "plain", "space", "punct", "nonascii") {
	case "plain":
		s := Pick(g.r, []string{"123", "A1", "chk42"})
		t.Code = &s
	case "space":
		s := Pick(g.r, []string{"a b", "chk 42"})
		t.Code = &s
	case "punct":
		s := Pick(g.r, []string{"#12", "x-1", "INV-2024#7"})
		t.Code = &s
	case "nonascii":
		s := Pick(g.r, []string{"🧾42", "чек7", "A😀"})
		t.Code = &s
	}
	switch g.knob("hdr", "nodesc", "payee-note", "payee-note-nospace") {
	case "nodesc":
		t.DescKind = "none"
	case "payee-note":
		t.DescKind = "payee-note"
		t.PipeSp = true
	case "payee-note-nospace":
		t.DescKind = "payee-note"
	}
	if t.DescKind != "none" {
		switch g.knob("desctrail", "nbsp", "ideographic") {
		case "nbsp":
			t.DescTrail = "\u00a0"
		case "ideographic":
			t.DescTrail = "\u3000"
		}
	}
	switch t.DescKind {
	case "plain":
		if len(g.Payees) > 0 && len(g.force) == 0 && g.r.Chance(1, 2) {
			py := Pick(g.r, g.Payees)
			g.markAll(py.F)
			t.Desc = py.V
		} else {
			before := g.snapshot()
			t.Desc = g.descText()
			g.Payees = append(g.Payees, pooled{t.Desc, g.since(before)})
		}
	case "payee-note":
		if len(g.Payees) > 0 && len(g.force) == 0 && g.r.Chance(1, 2) {
			py := Pick(g.r, g.Payees)
			g.markAll(py.F)
			t.Payee = py.V
		} else {
			before := g.snapshot()
			t.Payee = g.descText()
			g.Payees = append(g.Payees, pooled{t.Payee, g.since(before)})
		}
		t.Note = g.word() + " " + g.word()
	}
	if g.knob("hdr", "widesep") == "widesep" {
		t.Seps = []string{strings.Repeat(" ", g.r.Range(2, 3)), strings.Repeat(" ", g.r.Range(2, 3)), strings.Repeat(" ", g.r.Range(2, 3))}
	}
	if g.flag("has.hcomment", 1, 5) {
		t.HComment = g.comment("hcmt")
		switch g.knob("hcgap", "1", "3") {
		case "1":
			t.HCGap = " "
		case "3":
			t.HCGap = "   "
		}
	}
	np := g.r.Range(2, 4)
	switch g.knob("npost", "1", "5", "6") {
	case "1":
		np = 1
	case "5":
		np = 5
	case "6":
		np = 6
	}
	missing := -1
	if g.flag("has.missing-amount", 1, 3) {
		missing = g.r.Intn(np)
	}
	for i := 0; i < np; i++ {
		if g.flag("has.txcomment", 1, 10) {
			t.Lines = append(t.Lines, MTxLine{Comment: g.comment("tcmt"), Indent: "    "})
		}
		t.Lines = append(t.Lines, MTxLine{Posting: g.posting(i != missing)})
	}
	return t
}

func (g *Gen) sampleAmount(c commoditySpec) *MAmount {
	a := &MAmount{Commodity: c.Sym, Form: c.Form}
	if c.Form == "code-left-nospace" {
		a.NoSpace = true
	}
	a.Num.Int = "1000"
	a.Num.Frac = "00"
	a.Notation = "grp,."
	switch g.knob("fmt", "eu", "space", "nogroup", "dec0", "dec8", "dec3") {
	case "eu":
		a.Notation = "grp.,"
	case "space":
		a.Notation = "grp_,"
	case "nogroup":
		a.Notation = "point"
	case "dec0":
		a.Notation = "grp_."
		a.Num.Frac = ""
		a.Num.Int = "1000000"
	case "dec8":
		a.Notation = "point"
		a.Num.Frac = "00000000"
	case "dec3":
		a.Notation = "grp,."
		a.Num.Frac = "000"
	}
	return a
}

func (g *Gen) directive() *MDir {
	kinds := []string{"account", "commodity", "commodity-sample", "commodity-format", "P", "Y", "D"}
	k := Pick(g.r, kinds)
	for _, kk := range kinds {
		if g.UniverseOn {
			g.Universe["dir."+kk] = true
		}
		if g.force["dir."+kk] {
			k = kk
		}
	}
	for try := 0; try < 20 && g.avoid["dir."+k]; try++ {
		k = Pick(g.r, kinds)
	}
	g.mark("dir." + k)
	d := &MDir{Kind: k, CGap: "  ", SubInd: "    "}
	switch k {
	case "account":
		d.Account = g.account()
		if g.flag("has.dircomment", 1, 3) {
			d.Comment = g.comment("dcmt")
		}
		if g.flag("has.dirsubcomment", 1, 5) {
			d.SubCmt = g.comment("dscmt")
		}
	case "commodity":
		c := g.pickCommodityNonEmpty()
		d.Symbol = c.Sym
		d.Sample = &MAmount{Form: c.Form}
	case "commodity-sample":
		c := g.pickCommodityNonEmpty()
		d.Symbol = c.Sym
		d.Sample = g.sampleAmount(c)
	case "commodity-format":
		c := g.pickCommodityNonEmpty()
		d.Symbol = c.Sym
		d.Sample = g.sampleAmount(c)
	case "P":
		c := g.pickCommodityNonEmpty()
		d.Symbol = c.Sym
		d.Date = g.date()
		d.Date.Partial = false
		d.Sample = g.amountWith(g.pickCommodityNonEmpty(), false)
		d.Sample.Form = strings.TrimSuffix(d.Sample.Form, "")
		// the P commodity is written bare; quoted only when it needs quotes
		if strings.ContainsAny(c.Sym, " -0123456789") || strings.HasPrefix(c.Sym, "$$") {
			d.Sample = g.amountWith(plainCommodities[0], false)
			d.Symbol = "XAU"
		}
	case "Y":
		d.Year = g.r.Range(1990, g.MaxYear)
		d.KeywordY = "Y"
		if g.knob("ydir", "year") == "year" {
			d.KeywordY = "year"
		}
		g.YearSeen = d.Year
	case "D":
		d.Sample = g.sampleAmount(g.pickCommodityNonEmpty())
	}
	return d
}

func (g *Gen) pickCommodityNonEmpty() commoditySpec {
	for k := 0; k < 20; k++ {
		c := g.pickCommodity()
		if c.Sym != "" {
			return c
		}
	}
	return plainCommodities[0]
}

// Entry generates one entry of the requested kind ("" = random); clean pool entries contain
// no listed bad feature set.
func (g *Gen) Entry(kind string) *MEntry {
	for try := 0; ; try++ {
		saveAcc, savePay, saveCom, saveTag, saveY := len(g.Accounts), len(g.Payees), len(g.Commodities), len(g.TagNames), g.YearSeen
		g.beginEntry()
		if try > 40 {
			g.budget = 0
		}
		k := kind
		if k == "" && len(g.force) > 0 {
			k = g.forcedKind()
		}
		if k == "" {
			switch x := g.r.Intn(10); {
			case x < 6:
				k = "tx"
			case x < 9:
				k = "dir"
			default:
				k = "comment"
			}
		}
		e := &MEntry{Kind: k, Gap: "one"}
		switch g.knob("gap", "none", "multi", "blanks") {
		case "none":
			e.Gap = "none"
		case "multi":
			e.Gap = "multi"
			e.GapN = g.r.Range(2, 3)
		case "blanks":
			e.Gap = "blanks"
			e.GapN = g.r.Range(1, 4)
		}
		switch k {
		case "tx":
			e.Tx = g.tx()
		case "dir":
			e.Dir = g.directive()
		case "comment":
			e.Comment = g.comment("ccmt")
		}
		e.Feats = g.entryFeats()
		if !g.entryIsBad() || try > 200 {
			return e
		}
		// rejected: roll the pools back so rejected symbols do not leak
		g.Accounts, g.Payees, g.Commodities, g.TagNames, g.YearSeen = g.Accounts[:saveAcc], g.Payees[:savePay], g.Commodities[:saveCom], g.TagNames[:saveTag], saveY
	}
}

// Journal generates n entries plus journal-level knobs.
func (g *Gen) Journal(n int) *MJournal {
	j := &MJournal{EOL: "\n", FinalNewline: true}
	g.feats = map[string]bool{}
	g.budget = g.jbudget()
	if g.knob("eol", "crlf") == "crlf" {
		j.EOL = "\r\n"
		j.Feats = append(j.Feats, "eol.crlf")
	}
	g.budget = g.jbudget()
	if g.knob("eof", "nonewline") == "nonewline" {
		j.FinalNewline = false
		j.Feats = append(j.Feats, "eof.nonewline")
	}
	g.YearSeen = 0
	for i := 0; i < n; i++ {
		e := g.Entry("")
		if i == 0 && e.Gap == "one" {
			// "one empty line" before the first entry means nothing is written
		}
		j.Entries = append(j.Entries, e)
	}
	return j
}

func (g *Gen) forcedKind() string {
	k := "tx"
	for f := range g.force {
		switch knobOf(f) {
		case "dir", "fmt", "ydir", "dcmt", "dscmt", "dcmtlead", "dscmtlead":
			return "dir"
		case "ccmt", "ccmtlead":
			k = "comment"
		case "has":
			if f == "has.dircomment" || f == "has.dirsubcomment" {
				return "dir"
			}
		}
	}
	return k
}

func (g *Gen) jbudget() int {
	if len(g.force) > 0 {
		return 0
	}
	return 1
}

// FeatureUniverse enumerates the features the generator can produce.
func FeatureUniverse() []string {
	g := NewGen(NewRNG(12345), nil)
	g.UniverseOn = true
	g.Universe = map[string]bool{}
	for i := 0; i < 3000; i++ {
		g.Journal(3)
		if len(g.Accounts) > 50 {
			g.Accounts, g.Payees, g.Commodities, g.TagNames = nil, nil, nil, nil
		}
	}
	var out []string
	for f := range g.Universe {
		out = append(out, f)
	}
	sort.Strings(out)
	return out
}

// ForcedJournal builds a small journal in which the given features are forced on an otherwise
// plain background (systematic single / pair coverage). It reports whether all of them occurred.
func ForcedJournal(r *RNG, bad [][]string, force []string, neighbours bool) (*MJournal, bool) {
	for try := 0; try < 60; try++ {
		g := NewGen(r, bad)
		needY := false
		for _, f := range force {
			if f == "date.partial" {
				needY = true
			}
		}
		var pre *MEntry
		if needY {
			g.force["dir.Y"] = true
			pre = g.Entry("dir")
			pre.Gap = "one"
			delete(g.force, "dir.Y")
		}
		for _, f := range force {
			g.force[f] = true
		}
		var j *MJournal
		n := 1
		if neighbours {
			n = 3
		}
		ys := g.YearSeen
		j = g.Journal(n)
		if pre != nil {
			// Journal() resets YearSeen; regenerate with the year in force
			g.YearSeen = ys
			j.Entries = nil
			for i := 0; i < n; i++ {
				j.Entries = append(j.Entries, g.Entry(""))
			}
			j.Entries = append([]*MEntry{pre}, j.Entries...)
		}
		// ensure at least one transaction is present
		hasTx := false
		for _, e := range j.Entries {
			if e.Kind == "tx" {
				hasTx = true
			}
		}
		if !hasTx {
			j.Entries = append(j.Entries, g.Entry("tx"))
		}
		all := map[string]bool{}
		for _, f := range j.AllFeats() {
			all[f] = true
		}
		ok := true
		for _, f := range force {
			if !all[f] {
				ok = false
			}
		}
		if ok {
			return j, true
		}
	}
	return nil, false
}

func featKey(fs []string) string { return strings.Join(fs, "+") }

var _ = fmt.Sprintf
