package zv

import (
	"context"
	"encoding/json"
	"fmt"
	"os"
	"path/filepath"
	"runtime"
	"sort"
	"strings"
	"sync"
	"sync/atomic"
	"time"

	"go.lsp.dev/protocol"

	"github.com/juev/hledger-lsp/internal/server"
)

// ---------------------------------------------------------------------------
// Stub client: records every call at the client boundary; can park calls (gate mode).

type PubRec struct {
	Seq    int64
	URI    protocol.DocumentURI
	Params *protocol.PublishDiagnosticsParams
}

type gatedCall struct {
	Kind    string // publish | configuration
	URI     protocol.DocumentURI
	Params  *protocol.PublishDiagnosticsParams
	release chan struct{}
	Arrived int64
	done    bool
}

type Stub struct {
	mu        sync.Mutex
	cond      *sync.Cond
	seq       int64
	Silent    bool // free-running race stress: record nothing, share nothing
	GatePub   bool // park PublishDiagnostics calls until released
	GateCfg   bool // park workspace/configuration calls until released
	pubs      []PubRec
	gated     []*gatedCall
	cfgQueue  []any // scripted answers to workspace/configuration (last one repeats)
	cfgCalls  int
	arrivals  int64
	cfgAtomic atomic.Pointer[[]any]
}

func NewStub() *Stub {
	s := &Stub{}
	s.cond = sync.NewCond(&s.mu)
	return s
}

func (s *Stub) PublishDiagnostics(ctx context.Context, p *protocol.PublishDiagnosticsParams) error {
	if s.Silent {
		return nil
	}
	s.mu.Lock()
	if s.GatePub {
		g := &gatedCall{Kind: "publish", URI: p.URI, Params: p, release: make(chan struct{})}
		s.arrivals++
		g.Arrived = s.arrivals
		s.gated = append(s.gated, g)
		s.cond.Broadcast()
		s.mu.Unlock()
		<-g.release
		s.mu.Lock()
	}
	s.seq++
	s.pubs = append(s.pubs, PubRec{Seq: s.seq, URI: p.URI, Params: p})
	s.cond.Broadcast()
	s.mu.Unlock()
	return nil
}

func (s *Stub) Configuration(ctx context.Context, p *protocol.ConfigurationParams) ([]interface{}, error) {
	if s.Silent {
		// no lock: two refresh goroutines must not be ordered by the harness
		q := s.cfgAtomic.Load()
		if q == nil || len(*q) == 0 || (*q)[0] == nil {
			return nil, nil
		}
		return []interface{}{(*q)[0]}, nil
	}
	s.mu.Lock()
	if s.GateCfg {
		g := &gatedCall{Kind: "configuration", release: make(chan struct{})}
		s.arrivals++
		g.Arrived = s.arrivals
		s.gated = append(s.gated, g)
		s.cond.Broadcast()
		s.mu.Unlock()
		<-g.release
		s.mu.Lock()
	}
	var ans any
	if len(s.cfgQueue) > 0 {
		i := s.cfgCalls
		if i >= len(s.cfgQueue) {
			i = len(s.cfgQueue) - 1
		}
		ans = s.cfgQueue[i]
	}
	s.cfgCalls++
	s.cond.Broadcast()
	s.mu.Unlock()
	if ans == nil {
		return nil, nil
	}
	return []interface{}{ans}, nil
}

func (s *Stub) SetConfigAnswers(a ...any) {
	cp := append([]any(nil), a...)
	s.cfgAtomic.Store(&cp)
	s.mu.Lock()
	s.cfgQueue = a
	s.cfgCalls = 0
	s.mu.Unlock()
}

func (s *Stub) ConfigCalls() int {
	s.mu.Lock()
	defer s.mu.Unlock()
	return s.cfgCalls
}

func (s *Stub) Progress(context.Context, *protocol.ProgressParams) error { return nil }
func (s *Stub) WorkDoneProgressCreate(context.Context, *protocol.WorkDoneProgressCreateParams) error {
	return nil
}
func (s *Stub) LogMessage(context.Context, *protocol.LogMessageParams) error   { return nil }
func (s *Stub) ShowMessage(context.Context, *protocol.ShowMessageParams) error { return nil }
func (s *Stub) ShowMessageRequest(context.Context, *protocol.ShowMessageRequestParams) (*protocol.MessageActionItem, error) {
	return nil, nil
}
func (s *Stub) Telemetry(context.Context, interface{}) error { return nil }
func (s *Stub) RegisterCapability(context.Context, *protocol.RegistrationParams) error {
	return nil
}
func (s *Stub) UnregisterCapability(context.Context, *protocol.UnregistrationParams) error {
	return nil
}
func (s *Stub) ApplyEdit(context.Context, *protocol.ApplyWorkspaceEditParams) (bool, error) {
	return false, nil
}
func (s *Stub) WorkspaceFolders(context.Context) ([]protocol.WorkspaceFolder, error) {
	return nil, nil
}

// PubCount returns the number of delivered publishes for uri ("" = all).
func (s *Stub) PubCount(uri protocol.DocumentURI) int {
	s.mu.Lock()
	defer s.mu.Unlock()
	n := 0
	for _, p := range s.pubs {
		if uri == "" || p.URI == uri {
			n++
		}
	}
	return n
}

// LastPub returns the last delivered publish for uri.
func (s *Stub) LastPub(uri protocol.DocumentURI) *protocol.PublishDiagnosticsParams {
	s.mu.Lock()
	defer s.mu.Unlock()
	for i := len(s.pubs) - 1; i >= 0; i-- {
		if s.pubs[i].URI == uri {
			return s.pubs[i].Params
		}
	}
	return nil
}

func (s *Stub) Pubs() []PubRec {
	s.mu.Lock()
	defer s.mu.Unlock()
	return append([]PubRec(nil), s.pubs...)
}

func (s *Stub) ResetPubs() {
	s.mu.Lock()
	s.pubs = nil
	s.mu.Unlock()
}

// Gated returns the parked calls in arrival order.
func (s *Stub) Gated() []*gatedCall {
	s.mu.Lock()
	defer s.mu.Unlock()
	var out []*gatedCall
	for _, g := range s.gated {
		if !g.done {
			out = append(out, g)
		}
	}
	return out
}

// Release lets one parked call proceed and waits until it has been recorded.
func (s *Stub) Release(g *gatedCall) {
	s.mu.Lock()
	if g.done {
		s.mu.Unlock()
		return
	}
	g.done = true
	before := s.seq
	cfgBefore := s.cfgCalls
	s.mu.Unlock()
	close(g.release)
	s.mu.Lock()
	for (g.Kind == "publish" && s.seq == before) || (g.Kind == "configuration" && s.cfgCalls == cfgBefore) {
		s.cond.Wait()
	}
	s.mu.Unlock()
}

// ---------------------------------------------------------------------------
// Goroutine-state quiescence

type GorState struct {
	Active  int // running / runnable / syscall / IO wait / sleep
	Parked  int // waiting at a harness gate
	Blocked int // blocked on something that is not a harness gate
	Dump    string
}

func isBlockedState(s string) bool {
	switch s {
	case "chan receive", "chan send", "select", "semacquire", "sync.Mutex.Lock", "sync.RWMutex.RLock",
		"sync.RWMutex.Lock", "sync.Cond.Wait", "sync.WaitGroup.Wait", "chan receive (nil chan)", "chan send (nil chan)", "select (no cases)":
		return true
	}
	return false
}

const srvCreatedBy = "created by github.com/juev/hledger-lsp/internal/server."

// ServerGoroutines classifies the goroutines the server package started.
func ServerGoroutines() GorState {
	buf := make([]byte, 1<<16)
	for {
		n := runtime.Stack(buf, true)
		if n < len(buf) {
			buf = buf[:n]
			break
		}
		buf = make([]byte, 2*len(buf))
	}
	var st GorState
	for _, blk := range strings.Split(string(buf), "\n\n") {
		if !strings.Contains(blk, srvCreatedBy) {
			continue
		}
		head := blk
		if i := strings.IndexByte(blk, '\n'); i >= 0 {
			head = blk[:i]
		}
		state := ""
		if i := strings.IndexByte(head, '['); i >= 0 {
			if j := strings.IndexByte(head[i:], ']'); j >= 0 {
				state = head[i+1 : i+j]
			}
		}
		if k := strings.IndexByte(state, ','); k >= 0 {
			state = state[:k]
		}
		switch {
		case strings.Contains(blk, "zzverif.(*Stub).") || strings.Contains(blk, "zzverif.hookPark"):
			if state == "chan receive" || state == "sync.Cond.Wait" || state == "select" {
				st.Parked++
			} else {
				st.Active++
			}
		case isBlockedState(state) && !(state == "semacquire" && !strings.Contains(blk, "sync.runtime_Sem")):
			st.Blocked++
			st.Dump += blk + "\n\n"
		default:
			// running, runnable, syscall, IO wait, sleep, GC assist wait, …: still making progress
			st.Active++
		}
	}
	return st
}

// ---------------------------------------------------------------------------
// Session: an in-process server with a stub client

type SessOpt struct {
	Root           bool // initialise with a workspace folder (= Dir)
	InitOptions    any
	SupportsConfig bool
	Silent         bool
	GatePub        bool
	GateCfg        bool
	NoInitialized  bool
}

type Session struct {
	Srv      *server.Server
	Stub     *Stub
	Dir      string
	Ctx      context.Context
	Init     *protocol.InitializeResult
	vers     map[protocol.DocumentURI]int32
	WaitInfo string
}

func allStacks() string {
	buf := make([]byte, 1<<18)
	n := runtime.Stack(buf, true)
	return string(buf[:n])
}

func NewSession(dir string, o SessOpt) *Session {
	os.MkdirAll(dir, 0o755)
	s := &Session{Dir: dir, Ctx: context.Background(), vers: map[protocol.DocumentURI]int32{}}
	s.Srv = server.NewServer()
	s.Stub = NewStub()
	s.Stub.Silent = o.Silent
	s.Stub.GatePub = o.GatePub
	s.Stub.GateCfg = o.GateCfg
	s.Srv.SetClient(s.Stub)
	params := &protocol.InitializeParams{InitializationOptions: o.InitOptions}
	if o.SupportsConfig {
		params.Capabilities.Workspace = &protocol.WorkspaceClientCapabilities{Configuration: true}
	}
	if o.Root {
		params.WorkspaceFolders = []protocol.WorkspaceFolder{{URI: "file://" + dir, Name: "ws"}}
	}
	res, _ := s.Srv.Initialize(s.Ctx, params)
	s.Init = res
	if !o.NoInitialized {
		s.Srv.Initialized(s.Ctx, &protocol.InitializedParams{})
	}
	return s
}

func (s *Session) URI(name string) protocol.DocumentURI {
	return protocol.DocumentURI("file://" + filepath.Join(s.Dir, name))
}

func (s *Session) Path(name string) string { return filepath.Join(s.Dir, name) }

func (s *Session) Open(uri protocol.DocumentURI, text string) {
	s.vers[uri] = 1
	s.Srv.DidOpen(s.Ctx, &protocol.DidOpenTextDocumentParams{TextDocument: protocol.TextDocumentItem{URI: uri, LanguageID: "hledger", Version: 1, Text: text}})
}

func (s *Session) ChangeFull(uri protocol.DocumentURI, text string) {
	s.Change(uri, []protocol.TextDocumentContentChangeEvent{{Text: text}})
}

func (s *Session) Change(uri protocol.DocumentURI, ch []protocol.TextDocumentContentChangeEvent) {
	s.vers[uri]++
	s.Srv.DidChange(s.Ctx, &protocol.DidChangeTextDocumentParams{
		TextDocument:   protocol.VersionedTextDocumentIdentifier{TextDocumentIdentifier: protocol.TextDocumentIdentifier{URI: uri}, Version: s.vers[uri]},
		ContentChanges: ch})
}

func (s *Session) Close(uri protocol.DocumentURI) {
	s.Srv.DidClose(s.Ctx, &protocol.DidCloseTextDocumentParams{TextDocument: protocol.TextDocumentIdentifier{URI: uri}})
}

func (s *Session) Save(uri protocol.DocumentURI) {
	s.Srv.DidSave(s.Ctx, &protocol.DidSaveTextDocumentParams{TextDocument: protocol.TextDocumentIdentifier{URI: uri}})
}

// WaitPub waits (event driven) until more than `have` publishes were delivered for uri, or until
// no server goroutine is left that could still publish. Returns the last publish (nil if none came).
func (s *Session) WaitPub(uri protocol.DocumentURI, have int) (*protocol.PublishDiagnosticsParams, bool) {
	st := s.Stub
	deadline := time.Now().Add(60 * time.Second)
	spins := 0
	for {
		st.mu.Lock()
		n := 0
		var last *protocol.PublishDiagnosticsParams
		for _, p := range st.pubs {
			if p.URI == uri {
				n++
				last = p.Params
			}
		}
		st.mu.Unlock()
		if n > have {
			return last, true
		}
		spins++
		if spins < 200 {
			runtime.Gosched()
			continue
		}
		time.Sleep(50 * time.Microsecond)
		if spins%100 == 0 {
			g := ServerGoroutines()
			if g.Active == 0 && g.Parked == 0 {
				// nothing left that could publish; re-read once
				if c := st.PubCount(uri); c > have {
					return st.LastPub(uri), true
				}
				s.WaitInfo = fmt.Sprintf("no live server goroutine (blocked=%d) dump=%s full=%s", g.Blocked, g.Dump, allStacks())
				return nil, false
			}
			if time.Now().After(deadline) {
				return nil, false
			}
		}
	}
}

// OpenWait opens a document and returns the diagnostics published for it.
func (s *Session) OpenWait(uri protocol.DocumentURI, text string) (*protocol.PublishDiagnosticsParams, bool) {
	have := s.Stub.PubCount(uri)
	s.Open(uri, text)
	return s.WaitPub(uri, have)
}

// Drain releases every parked call in arrival order until no server goroutine is left.
// It returns false (inconclusive) when the watchdog fires, and the dump when goroutines remain blocked.
func (s *Session) Drain() (ok bool, blockedDump string) {
	deadline := time.Now().Add(60 * time.Second)
	for {
		if g := s.Stub.Gated(); len(g) > 0 {
			s.Stub.Release(g[0])
			continue
		}
		if activeGate != nil {
			if hp := activeGate.Parked(); len(hp) > 0 {
				activeGate.Release(hp[0])
				continue
			}
		}
		st := ServerGoroutines()
		if st.Active == 0 && st.Parked == 0 {
			if st.Blocked > 0 {
				// blocked on something that is not ours: stable because nothing else runs
				st2 := ServerGoroutines()
				if st2.Active == 0 && st2.Parked == 0 && st2.Blocked > 0 {
					return true, st2.Dump
				}
				continue
			}
			return true, ""
		}
		if time.Now().After(deadline) {
			return false, ""
		}
		time.Sleep(100 * time.Microsecond)
	}
}

// Quiesce waits until every server goroutine is gone, parked at a gate or blocked.
func (s *Session) Quiesce() (GorState, bool) {
	deadline := time.Now().Add(60 * time.Second)
	for {
		st := ServerGoroutines()
		if st.Active == 0 {
			return st, true
		}
		if time.Now().After(deadline) {
			return st, false
		}
		time.Sleep(100 * time.Microsecond)
	}
}

// ---------------------------------------------------------------------------
// Canonical JSON

func CanonJSON(v any) string {
	b, err := json.Marshal(v)
	if err != nil {
		return "!" + err.Error()
	}
	var x any
	if json.Unmarshal(b, &x) != nil {
		return string(b)
	}
	b2, _ := json.Marshal(x) // maps are emitted with sorted keys
	return string(b2)
}

// DiagKey is a comparable rendering of one diagnostic.
func DiagKey(d protocol.Diagnostic) string {
	return fmt.Sprintf("%d:%d-%d:%d|%v|%v|%s", d.Range.Start.Line, d.Range.Start.Character, d.Range.End.Line, d.Range.End.Character, d.Severity, d.Code, d.Message)
}

func DiagKeys(ds []protocol.Diagnostic) []string {
	out := make([]string, len(ds))
	for i, d := range ds {
		out[i] = DiagKey(d)
	}
	sort.Strings(out)
	return out
}

func CodeOf(d protocol.Diagnostic) string {
	if d.Code == nil {
		return ""
	}
	return fmt.Sprint(d.Code)
}

// ---------------------------------------------------------------------------
// Guarded calls: a notification or request is issued on its own goroutine so that the controller
// notices (from goroutine states, not from timing) when the handler is blocked by background
// work that is parked at a gate.

func sessionCall(fn func(), done chan struct{}) {
	fn()
	close(done)
}

func sessionCallState() string {
	buf := make([]byte, 1<<16)
	for {
		n := runtime.Stack(buf, true)
		if n < len(buf) {
			buf = buf[:n]
			break
		}
		buf = make([]byte, 2*len(buf))
	}
	for _, blk := range strings.Split(string(buf), "\n\n") {
		if !strings.Contains(blk, "zzverif.sessionCall(") {
			continue
		}
		head := blk
		if i := strings.IndexByte(blk, '\n'); i >= 0 {
			head = blk[:i]
		}
		if i := strings.IndexByte(head, '['); i >= 0 {
			if j := strings.IndexByte(head[i:], ']'); j >= 0 {
				st := head[i+1 : i+j]
				if k := strings.IndexByte(st, ','); k >= 0 {
					st = st[:k]
				}
				if st == "semacquire" && !strings.Contains(blk, "sync.runtime_Sem") {
					return "running"
				}
				return st + "|" + blk
			}
		}
	}
	return ""
}

// Do runs fn (a call into the server) and reports whether it is blocked while no server
// goroutine can make progress. When blocked, the returned channel is closed once fn returns.
func (s *Session) Do(fn func()) (blocked bool, dump string, done chan struct{}) {
	done = make(chan struct{})
	go sessionCall(fn, done)
	deadline := time.Now().Add(60 * time.Second)
	for spins := 0; ; spins++ {
		select {
		case <-done:
			return false, "", done
		default:
		}
		if spins < 200 {
			runtime.Gosched()
			continue
		}
		time.Sleep(50 * time.Microsecond)
		if spins%40 == 0 {
			st := sessionCallState()
			if i := strings.IndexByte(st, '|'); i > 0 && isBlockedState(st[:i]) {
				if g := ServerGoroutines(); g.Active == 0 {
					// re-check: still not done and still blocked
					select {
					case <-done:
						return false, "", done
					default:
					}
					return true, st[i+1:], done
				}
			}
			if time.Now().After(deadline) {
				return true, "watchdog", done
			}
		}
	}
}

func protocolURI(path string) protocol.DocumentURI { return protocol.DocumentURI("file://" + path) }
