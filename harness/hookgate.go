package zv

import (
	"runtime"
	"strings"
	"sync"

	"github.com/juev/hledger-lsp/internal/verifhook"
)

// HookGate parks server goroutines at the verif-tagged hook points (DESIGN section 7).

type hookCall struct {
	Point   string
	Key     string
	Arrived int64
	release chan struct{}
	done    bool
}

type HookGate struct {
	mu      sync.Mutex
	points  map[string]bool // points at which goroutines are parked
	parked  []*hookCall
	arrived int64
	Passed  map[string]int64 // how often each point was reached
	// AnyGoroutine also parks goroutines the harness started (direct loader/workspace drivers)
	AnyGoroutine bool
	seen         map[string]bool
}

func goroutineID() string {
	buf := make([]byte, 64)
	n := runtime.Stack(buf, false)
	f := strings.Fields(string(buf[:n]))
	if len(f) >= 2 {
		return f[1]
	}
	return "?"
}

var activeGate *HookGate

// InstallHookGate installs the process-wide hook handler; points lists where to park.
func InstallHookGate(points ...string) *HookGate {
	g := &HookGate{points: map[string]bool{}, Passed: map[string]int64{}}
	for _, p := range points {
		g.points[p] = true
	}
	activeGate = g
	verifhook.Set(func(point, key string) { hookPark(g, point, key) })
	return g
}

func RemoveHookGate() {
	verifhook.Set(nil)
	activeGate = nil
}

func hookPark(g *HookGate, point, key string) {
	g.mu.Lock()
	g.Passed[point]++
	if !g.points[point] || (!g.AnyGoroutine && !onServerGoroutine()) {
		g.mu.Unlock()
		return
	}
	// a goroutine is parked at most once per point (a point may have several call sites on one path)
	gid := goroutineID()
	seenKey := gid + "|" + point
	if g.seen == nil {
		g.seen = map[string]bool{}
	}
	if g.seen[seenKey] {
		g.mu.Unlock()
		return
	}
	g.seen[seenKey] = true
	h := &hookCall{Point: point, Key: key, release: make(chan struct{})}
	g.arrived++
	h.Arrived = g.arrived
	g.parked = append(g.parked, h)
	g.mu.Unlock()
	<-h.release
}

// onServerGoroutine reports whether the caller runs on a goroutine the server package started
// (the handler thread itself is never parked: that would be a deadlock of the harness' making).
func onServerGoroutine() bool {
	buf := make([]byte, 1<<14)
	n := runtime.Stack(buf, false)
	return strings.Contains(string(buf[:n]), srvCreatedBy)
}

func (g *HookGate) SetPoints(points ...string) {
	g.mu.Lock()
	g.points = map[string]bool{}
	for _, p := range points {
		g.points[p] = true
	}
	g.mu.Unlock()
}

// Parked returns the goroutines currently parked, in arrival order.
func (g *HookGate) Parked() []*hookCall {
	g.mu.Lock()
	defer g.mu.Unlock()
	var out []*hookCall
	for _, h := range g.parked {
		if !h.done {
			out = append(out, h)
		}
	}
	return out
}

func (g *HookGate) Release(h *hookCall) {
	g.mu.Lock()
	if h.done {
		g.mu.Unlock()
		return
	}
	h.done = true
	g.mu.Unlock()
	close(h.release)
}

func (g *HookGate) ReleaseAll() {
	for _, h := range g.Parked() {
		g.Release(h)
	}
}

func (g *HookGate) PassedCount(point string) int64 {
	g.mu.Lock()
	defer g.mu.Unlock()
	return g.Passed[point]
}

// parkedAll returns every goroutine that ever parked (released ones included), in arrival order.
func (g *HookGate) parkedAll() []*hookCall {
	g.mu.Lock()
	defer g.mu.Unlock()
	return append([]*hookCall(nil), g.parked...)
}
