package zv

import (
	"context"
	"fmt"
	"os"
	"path/filepath"
	"regexp"
	"sort"
	"strings"
	"unicode"
	"unicode/utf8"

	"go.lsp.dev/protocol"

	"github.com/juev/hledger-lsp/internal/ast"
	"github.com/juev/hledger-lsp/internal/parser"
)

// C04 Formatting never changes what the journal says.
// C05 Formatting is idempotent, aligned and returns well-formed edits.
// Both properties share the case space; each check judges its own clauses.

// ---- reference edit applier -------------------------------------------------------------

type editProblem struct {
	Kind   string
	Detail string
}

// splitLinesLSP returns line start offsets and line contents without terminators.
func splitLinesLSP(text string) (starts []int, lines []string) {
	s, e := refLines(text)
	for i := range s {
		starts = append(starts, s[i])
		lines = append(lines, text[s[i]:e[i]])
	}
	return
}

// applyEdits validates the edits against the text (C05 a) and applies them.
func applyEdits(text string, edits []protocol.TextEdit) (string, *editProblem) {
	starts, lines := splitLinesLSP(text)
	type span struct {
		a, b int
		text string
	}
	var spans []span
	off := func(p protocol.Position, what string, i int) (int, *editProblem) {
		if int(p.Line) >= len(lines) {
			return 0, &editProblem{"out-of-bounds", fmt.Sprintf("edit %d %s line %d beyond the last line %d", i, what, p.Line, len(lines)-1)}
		}
		ln := lines[p.Line]
		if int(p.Character) > u16len(ln) {
			return 0, &editProblem{"out-of-bounds", fmt.Sprintf("edit %d %s character %d beyond the line length %d (line %d)", i, what, p.Character, u16len(ln), p.Line)}
		}
		u, b := 0, 0
		for b < len(ln) {
			if u >= int(p.Character) {
				break
			}
			r, size := utf8.DecodeRuneInString(ln[b:]) // invalid bytes count as one unit of one byte
			if r >= 0x10000 {
				u += 2
			} else {
				u++
			}
			b += size
		}
		if u != int(p.Character) {
			return 0, &editProblem{"splits-surrogate", fmt.Sprintf("edit %d %s character %d lies inside a surrogate pair (line %d)", i, what, p.Character, p.Line)}
		}
		return starts[p.Line] + b, nil
	}
	for i, e := range edits {
		a, pr := off(e.Range.Start, "start", i)
		if pr != nil {
			return "", pr
		}
		b, pr := off(e.Range.End, "end", i)
		if pr != nil {
			return "", pr
		}
		if a > b {
			return "", &editProblem{"inverted", fmt.Sprintf("edit %d has start after end", i)}
		}
		spans = append(spans, span{a, b, e.NewText})
	}
	sort.SliceStable(spans, func(i, j int) bool { return spans[i].a < spans[j].a })
	for i := 1; i < len(spans); i++ {
		if spans[i].a < spans[i-1].b {
			return "", &editProblem{"overlap", fmt.Sprintf("two edits overlap (bytes %d-%d and %d-%d)", spans[i-1].a, spans[i-1].b, spans[i].a, spans[i].b)}
		}
	}
	var sb strings.Builder
	pos := 0
	for _, s := range spans {
		sb.WriteString(text[pos:s.a])
		sb.WriteString(s.text)
		pos = s.b
	}
	sb.WriteString(text[pos:])
	return sb.String(), nil
}

// ---- AST fingerprint ----------------------------------------------------------------------

func amtFP(a *ast.Amount) string {
	if a == nil {
		return "-"
	}
	return ratStr(decRat(a.Quantity)) + "{" + a.Commodity.Symbol + "}"
}

func tagsFP(ts []ast.Tag) string {
	var s []string
	for _, t := range ts {
		s = append(s, t.Name+"="+t.Value)
	}
	return strings.Join(s, ",")
}

// journalFP lists the meaning of a parsed journal, one item per element, so that the first
// differing item names what changed.
func journalFP(j *ast.Journal) []string {
	var out []string
	for ti, t := range j.Transactions {
		p := fmt.Sprintf("tx%d.", ti)
		d2 := ""
		if t.Date2 != nil {
			d2 = fmt.Sprintf("=%04d-%02d-%02d", t.Date2.Year, t.Date2.Month, t.Date2.Day)
		}
		// trailing blanks may be lost by formatting (an unterminated code or quote keeps them in its value)
		tr := func(x string) string { return strings.TrimRight(x, " \t\r") }
		out = append(out, fmt.Sprintf("%shead|%04d-%02d-%02d%s|%s|%s|%s|%s|%s", p, t.Date.Year, t.Date.Month, t.Date.Day, d2, statusStr(t.Status), tr(t.Code), tr(t.Description), tr(t.Payee), tr(t.Note)))
		for ci, cm := range t.Comments {
			out = append(out, fmt.Sprintf("%scomment%d|%s|%s", p, ci, strings.TrimSpace(cm.Text), tagsFP(cm.Tags)))
		}
		out = append(out, p+"tags|"+tagsFP(t.Tags))
		for pi, po := range t.Postings {
			q := fmt.Sprintf("%sposting%d.", p, pi)
			out = append(out, fmt.Sprintf("%saccount|%s|%s|%s", q, statusStr(po.Status), virtStr(po.Virtual), po.Account.Name))
			out = append(out, q+"amount|"+amtFP(po.Amount))
			if po.Cost != nil {
				out = append(out, fmt.Sprintf("%scost|%v|%s", q, po.Cost.IsTotal, amtFP(&po.Cost.Amount)))
			} else {
				out = append(out, q+"cost|-")
			}
			if po.BalanceAssertion != nil {
				out = append(out, fmt.Sprintf("%sassertion|%s|%s", q, fmt.Sprint(po.BalanceAssertion.IsStrict, po.BalanceAssertion.IsInclusive), amtFP(&po.BalanceAssertion.Amount)))
			} else {
				out = append(out, q+"assertion|-")
			}
			out = append(out, fmt.Sprintf("%scomment|%s|%s", q, strings.TrimSpace(po.Comment), tagsFP(po.Tags)))
		}
	}
	for di, d := range j.Directives {
		switch x := d.(type) {
		case ast.AccountDirective:
			out = append(out, fmt.Sprintf("dir%d|account|%s|%s|%s", di, x.Account.Name, strings.TrimSpace(x.Comment), tagsFP(x.Tags)))
		case ast.CommodityDirective:
			out = append(out, fmt.Sprintf("dir%d|commodity|%s|%s", di, strings.TrimRight(x.Commodity.Symbol, " \t\r"), strings.TrimRight(x.Format, " \t\r")))
		case ast.PriceDirective:
			out = append(out, fmt.Sprintf("dir%d|P|%04d-%02d-%02d|%s|%s", di, x.Date.Year, x.Date.Month, x.Date.Day, x.Commodity.Symbol, amtFP(&x.Price)))
		case ast.YearDirective:
			out = append(out, fmt.Sprintf("dir%d|Y|%d", di, x.Year))
		case ast.DefaultCommodityDirective:
			out = append(out, fmt.Sprintf("dir%d|D|%s|%s", di, strings.TrimRight(x.Symbol, " \t\r"), strings.TrimRight(x.Format, " \t\r")))
		default:
			out = append(out, fmt.Sprintf("dir%d|%T", di, d))
		}
	}
	for ii, inc := range j.Includes {
		out = append(out, fmt.Sprintf("include%d|%s", ii, inc.Path))
	}
	for ci, cm := range j.Comments {
		out = append(out, fmt.Sprintf("comment%d|%s|%s", ci, strings.TrimSpace(cm.Text), tagsFP(cm.Tags)))
	}
	return out
}

func fpField(item string) string {
	// "tx0.posting1.amount|…" -> "posting.amount"
	head := item
	if i := strings.IndexByte(item, '|'); i >= 0 {
		head = item[:i]
	}
	var parts []string
	for _, p := range strings.Split(head, ".") {
		parts = append(parts, strings.TrimRight(p, "0123456789"))
	}
	if len(parts) > 1 {
		parts = parts[1:]
	}
	f := strings.Join(parts, ".")
	if strings.HasPrefix(head, "dir") {
		f = "directive"
	}
	return f
}

func nonBlank(s string) string {
	return strings.Map(func(r rune) rune {
		if r == ' ' || r == '\t' || r == '\r' {
			return -1
		}
		return r
	}, s)
}

// ---- case generation ------------------------------------------------------------------------

type fmtConfig struct {
	Indent  int
	Align   bool
	MinCol  int
	RootFmt []string // directive lines of the workspace root (formats declared in the workspace)
	// Conflict: two sibling files of the workspace declare the plain commodities with different formats
	Conflict bool
}

type fmtCase struct {
	Text    string
	Kind    string // g g-damaged hostile
	Feats   []string
	Cfg     fmtConfig
	Journal *MJournal
}

var fmtDirectivePool = []string{
	"commodity 1,000.00 USD", "commodity 1.000,00 EUR", "commodity 1 000,00 EUR", "commodity $1,000.00", "commodity 1000.00000000 BTC",
	"commodity 1000 USD", "commodity 1,000 EUR", "D 1,000.00 USD", "D $1,000.00", "commodity 1.000 GBP", "commodity 1000.0 CHF",
	"commodity USD\n    format 1,000.000 USD", "commodity \"green apples\"\n    format 1.000,00 \"green apples\"", "commodity 1 000.00 hours",
}

func genFmtCase(r *RNG, bad [][]string) fmtCase {
	fc := fmtCase{Kind: "g"}
	fc.Cfg = fmtConfig{Indent: Pick(r, []int{4, 4, 1, 2, 3, 5, 6, 7, 8}), Align: r.Chance(3, 4), MinCol: Pick(r, []int{0, 0, 1, 20, 40, 80})}
	g := NewGen(r, bad)
	j := g.Journal(r.Range(2, 6))
	fc.Journal = j
	rd := j.Render()
	text := rd.Text
	// formats in scope: declared in the file or in the workspace root
	nf := r.Intn(3)
	var decl []string
	for i := 0; i < nf; i++ {
		decl = append(decl, Pick(r, fmtDirectivePool))
	}
	if len(decl) > 0 {
		if r.Chance(1, 3) {
			fc.Cfg.RootFmt = decl
			fc.Cfg.Conflict = r.Bool()
		} else {
			text = strings.Join(decl, j.EOL) + j.EOL + j.EOL + text
		}
	}
	switch x := r.Intn(10); {
	case x < 2:
		// damaged entry
		fc.Kind = "g-damaged"
		lines := strings.Split(text, "\n")
		i := r.Intn(len(lines))
		dm := damageEntry(r, []string{lines[i]}, false)
		if len(dm.Lines) == 1 && !strings.Contains(dm.Lines[0], "\n") {
			lines[i] = dm.Lines[0]
		}
		text = strings.Join(lines, "\n")
	case x == 2:
		fc.Kind = "hostile"
		switch r.Intn(6) {
		case 0:
			// hledger's inclusive balance assertions, which this parser may or may not know
			text = strings.Replace(text, " = ", Pick(r, []string{" =* ", " ==* "}), 1)
			if !strings.Contains(text, "=* ") {
				text += j.EOL + "2019-09-09 inclusive" + j.EOL + "    assets:cash  5 USD  =* 10 USD" + j.EOL + "    equity" + j.EOL
			}
		case 1:
			// a posting with text the parser does not read, behind more syntax errors than any list would hold
			var sb strings.Builder
			for k := 0; k < 105+r.Intn(40); k++ {
				sb.WriteString(Pick(r, []string{"!!! not a journal line ", "#row;2024-01-15;card payment;-12.50;", "    orphan:posting  1 USD ; ", "99x bad date "}) + fmt.Sprint(k) + j.EOL)
			}
			text = sb.String() + j.EOL + text + j.EOL + "2019-09-09 lot" + j.EOL + "    assets:broker  10 AAPL {$150.00} @ $151.20" + j.EOL + "    assets:cash" + j.EOL
		case 2:
			// account names with nonspacing marks (NFD text, Devanagari, Thai and Arabic vowel signs),
			// long enough to be the longest of the document: widths are counted in characters
			marked := []string{"cafe\u0301", "re\u0301sume\u0301", "नकदी", "हिंदी", "อาหาร", "กลางวัน", "كِتَاب", "e\u0301\u0301\u0301"}
			a := "liabilities:credit card:" + Pick(r, marked) + ":" + Pick(r, marked) + strings.Repeat("x", r.Intn(4))
			b := "expenses:" + Pick(r, marked)
			text += j.EOL + "2019-09-09 marks" + j.EOL + "    " + a + "  5 USD" + j.EOL + "    " + b + "  -2 USD" + j.EOL + "    assets:cash  -3 USD" + j.EOL
		default:
			text = hostileText(r, text)
		}
	}
	fc.Text = text
	fc.Feats = j.AllFeats()
	return fc
}

// hostileText mutates a seed text with the deterministic mutation engine of DESIGN 4.3.
func hostileText(r *RNG, seed string) string {
	b := []byte(seed)
	n := r.Range(1, 6)
	dict := []string{"@@", "==", "(", ")", "\"", ";", "|", "\r", "\t", "\x00", "\xff\xfe", "\xed\xa0\x80", "\xef\xbb\xbf", "1E9", "0000000000000000000000000000000000000000", "=", "@", "*", "!", "[", "]", "  ", "\n", "\n    ", "2024-01-15 ", "account ", "commodity ", "include ", "P ", "Y ", "D ", "🍕", "é", "$", "€", "-", "+", ",", ".", ":", "=* ", "==* ", " {$150.00}", " [2024-01-01]"}
	for k := 0; k < n; k++ {
		switch r.Intn(6) {
		case 0: // flip
			if len(b) > 0 {
				b[r.Intn(len(b))] ^= byte(1 << uint(r.Intn(8)))
			}
		case 1: // insert dictionary token
			i := r.Intn(len(b) + 1)
			t := Pick(r, dict)
			b = append(b[:i], append([]byte(t), b[i:]...)...)
		case 2: // delete span
			if len(b) > 1 {
				i := r.Intn(len(b))
				j := i + r.Intn(minInt(8, len(b)-i))
				b = append(b[:i], b[j:]...)
			}
		case 3: // duplicate a line
			lines := strings.Split(string(b), "\n")
			i := r.Intn(len(lines))
			lines = append(lines[:i+1], lines[i:]...)
			b = []byte(strings.Join(lines, "\n"))
		case 4: // swap two lines
			lines := strings.Split(string(b), "\n")
			if len(lines) > 1 {
				i, j := r.Intn(len(lines)), r.Intn(len(lines))
				lines[i], lines[j] = lines[j], lines[i]
			}
			b = []byte(strings.Join(lines, "\n"))
		default: // random byte insert
			i := r.Intn(len(b) + 1)
			b = append(b[:i], append([]byte{byte(r.Intn(256))}, b[i:]...)...)
		}
	}
	return string(b)
}

func minInt(a, b int) int {
	if a < b {
		return a
	}
	return b
}

type fmtState struct {
	bad [][]string
}

func fmtCounts(tier string) int64 {
	if tier == "thorough" {
		return 800000
	}
	return 40000
}

const fmtRule = "documents: journals from G (clean pool), journals with one damaged line, and hostile mutations (among them inclusive assertions, more than a hundred broken lines in front of a lot price, and account names with nonspacing marks that are the longest of the document); x formatting configuration (indent 1-8, alignment on/off, minimum column 0/1/20/40/80) x commodity formats (commodity / D directives with point or comma decimals, comma/point/space/no groups, 0-8 decimals) declared in the file or in the workspace root that includes it; the real server formats the document, a reference edit applier applies the edits, the result is parsed and analysed again. "

func init() {
	Register(&Prop{
		ID:    "C04",
		Rule:  fmtRule + "C04 oracle: the AST meaning fingerprint (dates, status, code, descriptions, accounts, exact quantities, commodities, costs, assertions, comments, tags, directives, includes) and the published diagnostics are identical before and after; lines that are not posting lines of a parsed transaction change only by loss of trailing blanks; on lines carrying a syntax error the sequence of non-blank characters is unchanged. Non-trivial = document with >=1 parsed posting; distinct by text+configuration hash.",
		Notes: []string{"edits that are not well-formed make the case inconclusive for C04 (they are C05's verdict)", "clean pool excludes the feature sets listed as findings of C03/C04"},
		Cases: fmtCounts, MustObserve: []string{"formatted", "documents_with_edits", "meaning_compared"},
		Setup:   func(c *Ctx) { c.State = &fmtState{bad: c.Known.BadFeatureSets("C03", "C04")} },
		RunCase: func(c *Ctx, idx int64) { runFormat(c, idx, "C04") },
	})
	Register(&Prop{
		ID:    "C05",
		Rule:  fmtRule + "C05 oracle: every edit lies inside the document with start <= end on code-point boundaries and no two edits overlap; formatting the formatted text changes nothing; with alignment on every posting line of the result starts with exactly the configured indent, and all amounts after an account without status mark start in one rune column >= indent + longest account (with its brackets) + 2 and >= the minimum column. Non-trivial = document with >=2 postings carrying amounts; distinct by text+configuration hash.",
		Notes: []string{"clean pool excludes the feature sets listed as findings of C03/C04/C05"},
		Cases: fmtCounts, MustObserve: []string{"formatted", "documents_with_edits", "idempotence_checked", "alignment_checked"},
		Setup:   func(c *Ctx) { c.State = &fmtState{bad: c.Known.BadFeatureSets("C03", "C04", "C05")} },
		RunCase: func(c *Ctx, idx int64) { runFormat(c, idx, "C05") },
	})
}

func formatVia(s *Session, uri protocol.DocumentURI) []protocol.TextEdit {
	ed, _ := s.Srv.Format(context.Background(), &protocol.DocumentFormattingParams{TextDocument: protocol.TextDocumentIdentifier{URI: uri}})
	return ed
}

func runFormat(c *Ctx, idx int64, prop string) {
	st := c.State.(*fmtState)
	r := c.RNG(idx, 0)
	fc := genFmtCase(r, st.bad)
	dir := filepath.Join(c.Dir, fmt.Sprintf("f%d", idx))
	defer os.RemoveAll(dir)
	root := len(fc.Cfg.RootFmt) > 0
	if root {
		writeFmtRoot(dir, fc)
	}
	opts := map[string]any{"formatting": map[string]any{"indentSize": fc.Cfg.Indent, "alignAmounts": fc.Cfg.Align, "minAlignmentColumn": fc.Cfg.MinCol}}
	s := NewSession(dir, SessOpt{Root: root, InitOptions: opts})
	uri := s.URI("doc.journal")
	pub1, ok := s.OpenWait(uri, fc.Text)
	if !ok {
		c.Inconclusive("no publish: " + s.WaitInfo)
		return
	}
	edits := formatVia(s, uri)
	c.Count("formatted", 1)
	c.Count("kind:"+fc.Kind, 1)
	if len(edits) > 0 {
		c.Count("documents_with_edits", 1)
	}
	before, perrs := parser.Parse(fc.Text)
	nPost, nAmt := 0, 0
	for _, t := range before.Transactions {
		nPost += len(t.Postings)
		for _, p := range t.Postings {
			if p.Amount != nil {
				nAmt++
			}
		}
	}
	h := HashStr(fc.Text + fmt.Sprint(fc.Cfg))
	witness := func(after string) map[string]any {
		return map[string]any{"text": fc.Text, "config": fmt.Sprintf("%+v", fc.Cfg), "kind": fc.Kind, "features": fc.Feats, "formatted": after}
	}
	featSig := func(kind string, fails func(fmtCase) bool) string {
		if fc.Kind != "g" {
			// damaged / hostile text: attribute to a listed raw-text construct when one is present
			for _, tf := range textFeatures(fc.Text) {
				if c.Known.Match(prop, "feat:"+tf) != nil {
					// only when the construct is what it takes: the same text with its blanks-only
					// lines already empty must not fail
					f2 := fc
					f2.Text = emptyBlankLines(fc.Text)
					if f2.Text != fc.Text && !fails(f2) {
						return "feat:" + tf
					}
				}
			}
			return prop + ":" + kind + "|" + fc.Kind
		}
		// reduce to the smallest feature set that reproduces the failure on a plain background
		fs := MinimalFailingGeneric(fc.Feats, func(j *MJournal) bool {
			f2 := fc
			f2.Journal = j
			f2.Text = j.Render().Text
			return fails(f2)
		})
		return prop + ":" + kind + "|feat:" + featKey(fs)
	}
	after, prob := applyEdits(fc.Text, edits)
	if prob != nil {
		if prop == "C05" {
			c.Violate(Violation{Kind: "edit-malformed", Sig: featSig("edit-malformed("+prob.Kind+")", func(f fmtCase) bool { _, p := formatOnce(c, f); return p != nil }), Pool: "clean", Detail: prob.Detail, Witness: witness("")})
		} else {
			c.Count("inconclusive_malformed_edits", 1)
		}
		return
	}
	if prop == "C04" {
		if nPost > 0 {
			c.Nontrivial(h)
		}
		kind, detail := c04Judge(c, s, fc, uri, before, perrs, pub1, after)
		if kind != "" {
			sig := featSig(kind, func(f fmtCase) bool {
				a, p := formatOnce(c, f)
				if p != nil {
					return false
				}
				k, _ := c04JudgeText(f.Text, a)
				return k == kind
			})
			c.Violate(Violation{Kind: kind, Sig: sig, Pool: "clean", Detail: detail, Witness: witness(after)})
			return
		}
	} else {
		if nAmt >= 2 {
			c.Nontrivial(h)
		}
		kind, detail := c05Judge(c, s, fc, uri, after)
		if kind != "" {
			sig := featSig(kind, func(f fmtCase) bool {
				a, p := formatOnce(c, f)
				if p != nil {
					return false
				}
				k, _ := c05JudgeText(c, f, a)
				return k == kind
			})
			c.Violate(Violation{Kind: kind, Sig: sig, Pool: "clean", Detail: detail, Witness: witness(after)})
			return
		}
	}
	if c.Rep.Evaluations%1201 == 0 {
		c.Sample(map[string]any{"case": idx, "kind": fc.Kind, "config": fmt.Sprintf("%+v", fc.Cfg), "text": fc.Text, "formatted": after, "edits": len(edits)})
	}
}

// writeFmtRoot writes the workspace of a case whose formats are declared outside the document: in
// the root journal, or (Conflict) in two sibling files that declare every plain commodity with
// different formats: the file included later wins, whatever order a map is walked in.
func writeFmtRoot(dir string, fc fmtCase) {
	os.MkdirAll(dir, 0o755)
	main := strings.Join(fc.Cfg.RootFmt, "\n") + "\n\n"
	if fc.Cfg.Conflict {
		var a, b []string
		for _, cm := range []string{"USD", "EUR", "GBP", "CHF"} {
			a = append(a, "commodity 1,000.00 "+cm)
			b = append(b, "commodity 1.000,00 "+cm)
		}
		os.WriteFile(filepath.Join(dir, "fa.journal"), []byte(strings.Join(a, "\n")+"\n"), 0o644)
		os.WriteFile(filepath.Join(dir, "fb.journal"), []byte(strings.Join(b, "\n")+"\n"), 0o644)
		main += "include fa.journal\ninclude fb.journal\n"
	}
	os.WriteFile(filepath.Join(dir, "main.journal"), []byte(main+"include doc.journal\n"), 0o644)
	os.WriteFile(filepath.Join(dir, "doc.journal"), []byte(fc.Text), 0o644)
}

// formatOnce formats a case in a throw-away session and applies the edits.
func formatOnce(c *Ctx, fc fmtCase) (string, *editProblem) {
	dir := filepath.Join(c.Dir, "fo")
	defer os.RemoveAll(dir)
	root := len(fc.Cfg.RootFmt) > 0
	if root {
		writeFmtRoot(dir, fc)
	}
	opts := map[string]any{"formatting": map[string]any{"indentSize": fc.Cfg.Indent, "alignAmounts": fc.Cfg.Align, "minAlignmentColumn": fc.Cfg.MinCol}}
	s := NewSession(dir, SessOpt{Root: root, InitOptions: opts})
	uri := s.URI("doc.journal")
	s.Srv.StoreDocument(uri, fc.Text)
	return applyEdits(fc.Text, formatVia(s, uri))
}

// c04JudgeText evaluates the text-level clauses of C04 (meaning, non-posting lines, error lines).
func c04JudgeText(beforeText, afterText string) (kind, detail string) {
	before, perrs := parser.Parse(beforeText)
	afterJ, _ := parser.Parse(afterText)
	fa, fb := journalFP(before), journalFP(afterJ)
	for i := 0; i < len(fa) || i < len(fb); i++ {
		var a, b string
		if i < len(fa) {
			a = fa[i]
		}
		if i < len(fb) {
			b = fb[i]
		}
		if a != b {
			f := fpField(a)
			if a == "" {
				f = fpField(b)
			}
			return "meaning-changed(" + f + ")", fmt.Sprintf("before: %s ; after: %s", a, b)
		}
	}
	// lines
	bl, al := strings.Split(beforeText, "\n"), strings.Split(afterText, "\n")
	if len(bl) != len(al) {
		return "line-count-changed", fmt.Sprintf("%d lines before, %d after", len(bl), len(al))
	}
	posting := map[int]bool{}
	for _, t := range before.Transactions {
		for _, p := range t.Postings {
			posting[p.Range.Start.Line-1] = true
		}
	}
	errLine := map[int]bool{}
	for _, e := range perrs {
		errLine[e.Pos.Line-1] = true
	}
	for i := range bl {
		if errLine[i] && nonBlank(bl[i]) != nonBlank(al[i]) {
			return "unparsed-text-changed", fmt.Sprintf("line %d carries a syntax error and was rewritten: %q -> %q", i+1, bl[i], al[i])
		}
		// whatever a rewritten line looks like, nothing but numbers, blanks, quotes and a leading plus
		// sign may be lost (a missing closing bracket may be supplied): text the parser did not take into the AST is not in the fingerprint,
		// and the list of syntax errors is the parser's own word (it may be short)
		if bl[i] != al[i] && !isSubsequence(lineResidue(bl[i]), lineResidue(al[i])) {
			return "text-lost", fmt.Sprintf("line %d lost text other than numbers, blanks and quotes: %q -> %q", i+1, bl[i], al[i])
		}
		if !posting[i] {
			if strings.TrimRight(bl[i], " \t\r") != strings.TrimRight(al[i], " \t\r") || len(al[i]) > len(bl[i]) {
				return "nonposting-line-changed", fmt.Sprintf("line %d is not a posting line and changed by more than trailing blanks: %q -> %q", i+1, bl[i], al[i])
			}
		}
	}
	return "", ""
}

func c04Judge(c *Ctx, s *Session, fc fmtCase, uri protocol.DocumentURI, before *ast.Journal, perrs []parser.ParseError, pub1 *protocol.PublishDiagnosticsParams, after string) (string, string) {
	c.Count("meaning_compared", 1)
	if k, d := c04JudgeText(fc.Text, after); k != "" {
		return k, d
	}
	// diagnostics of the formatted text
	have := s.Stub.PubCount(uri)
	s.ChangeFull(uri, after)
	pub2, ok := s.WaitPub(uri, have)
	if !ok {
		c.Inconclusive("no publish after formatting: " + s.WaitInfo)
		return "", ""
	}
	key := func(p *protocol.PublishDiagnosticsParams) string {
		var ks []string
		for _, d := range p.Diagnostics {
			msg := d.Message
			if m, ok := parseBalanceMsg(msg); ok {
				msg = fmtDiffs(m)
			}
			ks = append(ks, fmt.Sprintf("%s|%s|%d", CodeOf(d), msg, d.Range.Start.Line))
		}
		sort.Strings(ks)
		return strings.Join(ks, "\n")
	}
	if a, b := key(pub1), key(pub2); a != b {
		return "diag-changed", fmt.Sprintf("diagnostics before: %s ; after: %s", oneLine(a, 400), oneLine(b, 400))
	}
	return "", ""
}

func c05JudgeText(c *Ctx, fc fmtCase, after string) (kind, detail string) {
	// idempotence
	f2 := fc
	f2.Text = after
	after2, prob := formatOnce(c, f2)
	if prob != nil {
		return "edit-malformed-second(" + prob.Kind + ")", prob.Detail
	}
	if after2 != after {
		al, bl := strings.Split(after, "\n"), strings.Split(after2, "\n")
		for i := 0; i < len(al) && i < len(bl); i++ {
			if al[i] != bl[i] {
				return "not-idempotent", fmt.Sprintf("formatting the formatted text changes line %d: %q -> %q", i+1, al[i], bl[i])
			}
		}
		return "not-idempotent", "formatting the formatted text changes it"
	}
	if !fc.Cfg.Align {
		// indentation still applies
	}
	j, perrs := parser.Parse(after)
	errLine := map[int]bool{}
	for _, e := range perrs {
		errLine[e.Pos.Line-1] = true
	}
	lines := strings.Split(after, "\n")
	indent := strings.Repeat(" ", fc.Cfg.Indent)
	col := -1
	longest := 0
	type pl struct {
		line, col int
		text      string
	}
	var amts []pl
	for _, t := range j.Transactions {
		for _, p := range t.Postings {
			ln := p.Range.Start.Line - 1
			if ln < 0 || ln >= len(lines) || errLine[ln] {
				continue // a line the parser did not fully understand is left as it is (C04)
			}
			text := lines[ln]
			if !strings.HasPrefix(text, indent) || len(text) <= len(indent) || text[len(indent)] == ' ' || text[len(indent)] == '\t' {
				return "wrong-indent", fmt.Sprintf("posting line %d does not start with exactly %d spaces: %q", ln+1, fc.Cfg.Indent, text)
			}
			w := utf8.RuneCountInString(p.Account.Name)
			if p.Virtual != ast.VirtualNone {
				w += 2
			}
			if w > longest {
				longest = w
			}
			if p.Amount != nil && p.Status == ast.StatusNone {
				// AST columns count UTF-16 units; alignment is judged in characters
				amts = append(amts, pl{ln, runeColOfU16(text, p.Amount.Range.Start.Column-1), text})
			}
		}
	}
	if !fc.Cfg.Align {
		return "", ""
	}
	for _, a := range amts {
		if col == -1 {
			col = a.col
		}
		if a.col != col {
			return "misaligned", fmt.Sprintf("amounts start in rune columns %d and %d (line %d: %q)", col, a.col, a.line+1, a.text)
		}
	}
	if col >= 0 {
		if col < fc.Cfg.Indent+longest+2 {
			return "misaligned", fmt.Sprintf("amount column %d is less than indent %d + longest account %d + 2", col, fc.Cfg.Indent, longest)
		}
		if col < fc.Cfg.MinCol {
			return "misaligned", fmt.Sprintf("amount column %d is below the configured minimum %d", col, fc.Cfg.MinCol)
		}
	}
	return "", ""
}

func c05Judge(c *Ctx, s *Session, fc fmtCase, uri protocol.DocumentURI, after string) (string, string) {
	c.Count("idempotence_checked", 1)
	if fc.Cfg.Align {
		c.Count("alignment_checked", 1)
	}
	return c05JudgeText(c, fc, after)
}

// MinimalFailingGeneric is MinimalFailing for oracles that are not the parse oracle.
func MinimalFailingGeneric(feats []string, fails func(*MJournal) bool) []string {
	return MinimalFailing(feats, fails)
}

// textFeatures detects raw-text constructs (in damaged or hostile documents) that findings refer to.
var numberRe = regexp.MustCompile(`[-+]?[0-9][0-9.,_ ]*([eE][-+]?[0-9]+)?`)

func isSubsequence(a, b string) bool {
	ra, rb := []rune(a), []rune(b)
	j := 0
	for i := 0; i < len(rb) && j < len(ra); i++ {
		if rb[i] == ra[j] {
			j++
		}
	}
	return j == len(ra)
}

// lineResidue is what is left of a line when numbers, blanks and double quotes are taken out.
func lineResidue(l string) string {
	// an empty comment (a bare ';' at the end) may be dropped
	if t := strings.TrimRight(l, " \t\r"); strings.HasSuffix(t, ";") {
		l = strings.TrimSuffix(t, ";")
	}
	l = numberRe.ReplaceAllString(l, "")
	var sb strings.Builder
	for _, r := range l {
		switch {
		case unicode.IsSpace(r), r == '"', r == '+', r == '-', r == '.', r == ',':
		default:
			sb.WriteRune(r)
		}
	}
	return sb.String()
}

// emptyBlankLines returns text with every blanks-only line made empty (line terminators kept).
func emptyBlankLines(text string) string {
	lines := strings.Split(text, "\n")
	for i, l := range lines {
		cr := strings.HasSuffix(l, "\r")
		if b := strings.TrimSuffix(l, "\r"); b != "" && strings.TrimLeft(b, " \t") == "" {
			lines[i] = ""
			if cr {
				lines[i] = "\r"
			}
		}
	}
	return strings.Join(lines, "\n")
}

func textFeatures(text string) []string {
	var out []string
	seen := map[string]bool{}
	lines := strings.Split(text, "\n")
	for i := 0; i+1 < len(lines); i++ {
		l := strings.TrimSuffix(lines[i], "\r")
		if l != "" && strings.TrimLeft(l, " \t") == "" {
			n := lines[i+1]
			if strings.HasPrefix(n, " ") || strings.HasPrefix(n, "\t") {
				if !seen["text.blank-line-then-indented"] {
					seen["text.blank-line-then-indented"] = true
					out = append(out, "text.blank-line-then-indented")
				}
				continue
			}
			// the same trimming below an indented line with more text to follow: the blanks-only line
			// was part of the entry above (an indent token), the empty line it becomes is not
			if i > 0 && strings.TrimSpace(n) != "" {
				p := strings.TrimSuffix(lines[i-1], "\r")
				if (strings.HasPrefix(p, " ") || strings.HasPrefix(p, "\t")) && strings.TrimSpace(p) != "" {
					if !seen["text.blank-line-below-indented"] {
						seen["text.blank-line-below-indented"] = true
						out = append(out, "text.blank-line-below-indented")
					}
				}
			}
		}
	}
	return out
}

// runeColOfU16 converts a UTF-16 column of a line into a character (rune) column.
func runeColOfU16(line string, u16 int) int {
	u, n := 0, 0
	for _, r := range line {
		if u >= u16 {
			break
		}
		if r >= 0x10000 {
			u += 2
		} else {
			u++
		}
		n++
	}
	return n
}
