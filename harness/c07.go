package zv

import (
	"fmt"
	"sort"
	"strings"

	"github.com/juev/hledger-lsp/internal/ast"
	"github.com/juev/hledger-lsp/internal/parser"
)

// C07 A syntax error stays contained in its own entry.

type damageRes struct {
	Kind  string
	Lines []string // replacement for the lines of the entry
}

var garbageAlphabet = []string{"@", "=", "*", "!", ";", "|", "\"", "(", ")", "[", "]", "#", "%", "~", "\\", "^", "`", "{", "}", "<", ">", "?", "&", "$", "€", "é", "🍕", "\t", "\x00", "\xff", "\x7f", "0", "9", "-", "+", ".", ",", ":", "E", "Z", "q", " "}

func damageEntry(r *RNG, lines []string, structural bool) damageRes {
	cp := append([]string(nil), lines...)
	pickLine := func() int { return r.Intn(len(cp)) }
	runeCut := func(s string, at int) (string, string) {
		rs := []rune(s)
		if at > len(rs) {
			at = len(rs)
		}
		return string(rs[:at]), string(rs[at:])
	}
	ops := []string{"random-bytes", "random-bytes", "truncate", "truncate", "quote", "bracket", "operator", "operator"}
	if structural {
		ops = append(ops, "delete-line", "dup-line", "swap-lines")
	}
	switch op := Pick(r, ops); op {
	case "random-bytes":
		i := pickLine()
		rs := []rune(cp[i])
		a := r.Intn(len(rs) + 1)
		b := a + r.Intn(len(rs)-a+1)
		n := r.Range(1, 6)
		var g strings.Builder
		for k := 0; k < n; k++ {
			g.WriteString(Pick(r, garbageAlphabet))
		}
		cp[i] = string(rs[:a]) + g.String() + string(rs[b:])
		return damageRes{op, cp}
	case "truncate":
		i := pickLine()
		n := len([]rune(cp[i]))
		at := 0
		if n > 0 {
			at = r.Intn(n)
		}
		cp[i], _ = runeCut(cp[i], at)
		return damageRes{op, cp}
	case "quote", "bracket", "operator":
		i := pickLine()
		var ins string
		switch op {
		case "quote":
			ins = "\""
		case "bracket":
			ins = Pick(r, []string{"(", "[", ")", "]"})
		default:
			ins = Pick(r, []string{"@", "@@", "=", "==", "*", "!", ";", "|", " @ ", " = "})
		}
		n := len([]rune(cp[i]))
		a, b := runeCut(cp[i], r.Intn(n+1))
		cp[i] = a + ins + b
		return damageRes{op, cp}
	case "delete-line":
		i := pickLine()
		cp = append(cp[:i], cp[i+1:]...)
		return damageRes{op, cp}
	case "dup-line":
		i := pickLine()
		cp = append(cp[:i+1], cp[i:]...)
		return damageRes{op, cp}
	default: // swap-lines
		if len(cp) >= 2 {
			i := r.Intn(len(cp) - 1)
			cp[i], cp[i+1] = cp[i+1], cp[i]
		} else {
			cp[0] = cp[0] + " @"
		}
		return damageRes{"swap-lines", cp}
	}
}

// filterJournal drops the AST nodes that start inside [lo,hi] (1-based lines).
func filterJournal(j *ast.Journal, lo, hi int) *ast.Journal {
	out := &ast.Journal{}
	in := func(l int) bool { return l >= lo && l <= hi }
	for _, t := range j.Transactions {
		if !in(t.Range.Start.Line) {
			out.Transactions = append(out.Transactions, t)
		}
	}
	for _, d := range j.Directives {
		if !in(d.GetRange().Start.Line) {
			out.Directives = append(out.Directives, d)
		}
	}
	for _, d := range j.Includes {
		if !in(d.Range.Start.Line) {
			out.Includes = append(out.Includes, d)
		}
	}
	for _, cm := range j.Comments {
		if !in(cm.Range.Start.Line) {
			out.Comments = append(out.Comments, cm)
		}
	}
	return out
}

type c07State struct {
	sess  *Session
	nsess int
	bad   [][]string
}

func init() {
	Register(&Prop{
		ID:    "C07",
		Rule:  "a silent journal J of 3-5 entries from G (clean pool), one entry e damaged by one operator (random bytes incl. NUL/invalid UTF-8, truncation at a column, stray quote/bracket/operator, deleted/duplicated/swapped lines); oracle: every other entry is still extracted with the same content (model comparison, exact rationals) at a start line shifted by exactly the line delta, code-less diagnostics of the damaged text lie only on lines of e, and every coded diagnostic of other entries is unchanged after the shift. Non-trivial = the damaged text differs from J and J has >=2 other entries; distinct by hash of damaged text.",
		Notes: []string{"Y directives are never damaged (later partial dates legitimately depend on them)", "undeclared-* warnings are not compared when the damaged entry is a declaration", "line-structural damages are applied only to entries separated by empty lines (an orphaned posting line directly below another transaction legitimately joins it)"},
		Cases: func(tier string) int64 {
			if tier == "thorough" {
				return 1200000
			}
			return 40000
		},
		MustObserve: []string{"damaged_cases", "damage_produced_errors", "other_entries_compared"},
		Setup:       func(c *Ctx) { c.State = &c07State{bad: c.Known.BadFeatureSets("C03", "C07")} },
		RunCase:     runC07,
	})
}

func runC07(c *Ctx, idx int64) {
	st := c.State.(*c07State)
	r := c.RNG(idx, 0)
	g := NewGen(r, st.bad)
	j := g.Journal(r.Range(3, 5))
	structural := r.Chance(1, 3)
	if structural {
		for _, e := range j.Entries {
			if e.Gap != "one" && e.Gap != "multi" {
				e.Gap = "one"
			}
		}
	}
	// CRLF journals are damaged in their LF form plus CR re-attached per line
	rd := j.Render()
	if k, _, _ := parseFails(j); k != "" {
		c.Count("base_not_silent_skipped", 1)
		return
	}
	// choose the entry to damage
	var cand []int
	for i, e := range j.Entries {
		if e.Kind == "dir" && e.Dir.Kind == "Y" {
			continue
		}
		cand = append(cand, i)
	}
	if len(cand) == 0 {
		return
	}
	k := Pick(r, cand)
	e := j.Entries[k]
	lines := append([]string(nil), rd.Lines[e.Line0:e.Line1+1]...)
	dm := damageEntry(r, lines, structural)
	// no-ops are uninteresting
	if strings.Join(dm.Lines, "\n") == strings.Join(lines, "\n") {
		c.Count("damage_noop", 1)
		return
	}
	// a damaged line must not contain a line break
	for _, l := range dm.Lines {
		if strings.ContainsAny(l, "\n") {
			return
		}
	}
	// an indented line directly below another entry legitimately belongs to that entry
	if k > 0 && (e.Gap == "none" || e.Gap == "blanks") && len(dm.Lines) > 0 &&
		(strings.HasPrefix(dm.Lines[0], " ") || strings.HasPrefix(dm.Lines[0], "\t")) {
		c.Count("damage_joins_previous_discarded", 1)
		return
	}
	// damage results that open a scoping directive are outside the statement
	for _, l := range dm.Lines {
		t := strings.TrimRight(l, "\r")
		for _, kw := range []string{"comment", "apply ", "alias ", "end ", "Y ", "year ", "D ", "decimal-mark", "include "} {
			if strings.HasPrefix(t, kw) {
				c.Count("damage_scoping_discarded", 1)
				return
			}
		}
	}
	all := append([]string(nil), rd.Lines[:e.Line0]...)
	all = append(all, dm.Lines...)
	all = append(all, rd.Lines[e.Line1+1:]...)
	dtext := strings.Join(all, j.EOL)
	if j.FinalNewline {
		dtext += j.EOL
	}
	delta := len(dm.Lines) - len(lines)
	dLo, dHi := e.Line0+1, e.Line0+len(dm.Lines) // 1-based damaged region
	if len(dm.Lines) == 0 {
		dHi = dLo - 1
	}
	c.Count("damaged_cases", 1)
	c.Count("damage:"+dm.Kind, 1)
	if len(j.Entries) >= 3 {
		c.Nontrivial(HashStr(dtext))
	}

	got, errs := parser.Parse(dtext)
	if len(errs) > 0 {
		c.Count("damage_produced_errors", 1)
	}
	witness := map[string]any{"base": rd.Text, "damaged": dtext, "damage": dm.Kind, "entry": k, "damaged_lines": fmt.Sprintf("%d-%d", dLo, dHi)}
	sigOf := func(kind string) string {
		fs := append([]string{}, j.Feats...)
		_ = fs
		return fmt.Sprintf("C07:%s|%s|%s", kind, dm.Kind, e.Kind)
	}
	// (1) syntax errors only on damaged lines
	for _, pe := range errs {
		if pe.Pos.Line < dLo || pe.Pos.Line > dHi {
			c.Violate(Violation{Kind: "stray-syntax-error", Sig: sigOf("stray-syntax-error"), Pool: "clean",
				Detail: fmt.Sprintf("syntax error %d:%d %q outside the damaged lines %d-%d", pe.Pos.Line, pe.Pos.Column, pe.Message, dLo, dHi), Witness: witness})
			return
		}
	}
	// (2) other entries: same content, start line shifted by the delta
	want := &MJournal{EOL: j.EOL, FinalNewline: j.FinalNewline}
	var wantLines []int
	for i, en := range j.Entries {
		if i == k {
			continue
		}
		cp := *en
		want.Entries = append(want.Entries, &cp)
		l := en.Line0 + 1
		if i > k {
			l += delta
		}
		wantLines = append(wantLines, l)
	}
	fj := filterJournal(got, dLo, dHi)
	mm := CompareJournal(want, fj)
	c.Count("other_entries_compared", int64(len(want.Entries)))
	if len(mm) > 0 {
		c.Violate(Violation{Kind: "neighbour-changed", Sig: sigOf("neighbour-changed"), Pool: "clean",
			Detail: "another entry is understood differently after the damage: " + mm[0].String(), Witness: witness})
		return
	}
	var gotLines []int
	for _, t := range fj.Transactions {
		gotLines = append(gotLines, t.Range.Start.Line)
	}
	for _, d := range fj.Directives {
		gotLines = append(gotLines, d.GetRange().Start.Line)
	}
	for _, d := range fj.Includes {
		gotLines = append(gotLines, d.Range.Start.Line)
	}
	for _, cm := range fj.Comments {
		gotLines = append(gotLines, cm.Range.Start.Line)
	}
	sort.Ints(gotLines)
	wl := append([]int(nil), wantLines...)
	sort.Ints(wl)
	if fmt.Sprint(gotLines) != fmt.Sprint(wl) {
		c.Violate(Violation{Kind: "neighbour-moved", Sig: sigOf("neighbour-moved"), Pool: "clean",
			Detail: fmt.Sprintf("start lines of the other entries: want %v got %v", wl, gotLines), Witness: witness})
		return
	}
	// (3) server level: diagnostics
	if st.sess == nil || st.nsess > 1500 {
		st.sess = NewSession(fmt.Sprintf("%s/c07-%d", c.Dir, idx), SessOpt{})
		st.nsess = 0
	}
	st.nsess++
	s := st.sess
	u1, u2 := s.URI(fmt.Sprintf("a%d.journal", idx)), s.URI(fmt.Sprintf("b%d.journal", idx))
	p1, ok1 := s.OpenWait(u1, rd.Text)
	p2, ok2 := s.OpenWait(u2, dtext)
	s.Close(u1)
	s.Close(u2)
	if !ok1 || !ok2 {
		c.Inconclusive("no publish: " + s.WaitInfo)
		return
	}
	declDamaged := e.Kind == "dir" && (e.Dir.Kind == "account" || strings.HasPrefix(e.Dir.Kind, "commodity"))
	keyOf := func(code, msg string, line int) string {
		// the order of the items of a multi-commodity imbalance message is C15's subject
		if m, ok := parseBalanceMsg(msg); ok {
			msg = fmtDiffs(m)
		}
		return fmt.Sprintf("%s|%s|%d", code, msg, line)
	}
	var before, after []string
	for _, d := range p1.Diagnostics {
		code := CodeOf(d)
		ln := int(d.Range.Start.Line) + 1
		if ln >= e.Line0+1 && ln <= e.Line1+1 {
			continue
		}
		if strings.HasPrefix(code, "UNDECLARED") && declDamaged {
			continue
		}
		if ln > e.Line1+1 {
			ln += delta
		}
		before = append(before, keyOf(code, d.Message, ln))
	}
	for _, d := range p2.Diagnostics {
		code := CodeOf(d)
		ln := int(d.Range.Start.Line) + 1
		if ln >= dLo && ln <= dHi {
			continue
		}
		if code == "" {
			c.Violate(Violation{Kind: "stray-syntax-error", Sig: sigOf("stray-syntax-diagnostic"), Pool: "clean",
				Detail: fmt.Sprintf("code-less diagnostic %q on line %d outside the damaged lines %d-%d", d.Message, ln, dLo, dHi), Witness: witness})
			return
		}
		if strings.HasPrefix(code, "UNDECLARED") && declDamaged {
			continue
		}
		after = append(after, keyOf(code, d.Message, ln))
	}
	sort.Strings(before)
	sort.Strings(after)
	c.Count("diagnostics_compared", int64(len(before)))
	if strings.Join(before, "\n") != strings.Join(after, "\n") {
		c.Violate(Violation{Kind: "diag-changed", Sig: sigOf("diag-changed"), Pool: "clean",
			Detail: fmt.Sprintf("diagnostics of other entries changed: before %v after %v", before, after), Witness: witness})
		return
	}
	if c.Rep.Evaluations%997 == 0 {
		c.Sample(map[string]any{"case": idx, "damage": dm.Kind, "entry_kind": e.Kind, "damaged_lines": dm.Lines, "original_lines": lines, "parse_errors": len(errs), "other_entries": len(want.Entries)})
	}
}
