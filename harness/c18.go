package zv

import (
	"fmt"
	"os"
	"path/filepath"
	"sort"
	"strings"
	"unicode"

	"go.lsp.dev/protocol"
)

// C18 Undeclared-account and undeclared-commodity warnings are exact.

type c18State struct{ bad [][]string }

func c18Counts(tier string) int64 {
	if tier == "thorough" {
		return 50000
	}
	return 5000
}

func init() {
	Register(&Prop{
		ID:          "C18",
		Rule:        "workspaces of 1-3 journals from G; account and commodity declarations placed in the current file, an included file, a sibling file that nothing includes, or nowhere (declarations of exact accounts and of parent accounts are injected so that 'below a declared account' occurs); every file is opened under each of the 8 combinations of the three diagnostics settings (fresh server with initializationOptions, or one server reconfigured through workspace/configuration), with and without workspace root. Oracle from the model over the scope: if >=1 account is declared, exactly the postings whose account is not declared, not below a declared account (declared + ':' prefix) and not under assets/liabilities/equity/expenses/revenues/income (any case) are warned about; if >=1 commodity is declared, each transaction carries one warning per distinct undeclared non-empty commodity among its amounts, costs and assertions; a switched-off kind is absent and the multiset of all other codes is identical across the 8 combinations. A tenth of the cases are declaration histories with a workspace root: declarations reached through one open document's include must neither leak into another document nor outlive the include line; a twentieth are membership histories: the include line that reaches the only declaring member file (from the root or from a file in the middle) is removed and restored by an edit that touches no declaration, and the warnings of a third document are due / gone after each step. Non-trivial = document with >=1 expected warning; distinct by workspace hash.",
		Notes:       []string{"when the only declarations live in a sibling file that the root journal does not include, the presence of warnings is not judged (both readings of 'its workspace' are possible); the settings clauses still are"},
		Cases:       c18Counts,
		MustObserve: []string{"documents", "expected_account_warnings", "expected_commodity_warnings", "setting_combinations"},
		Setup:       func(c *Ctx) { c.State = &c18State{bad: c.Known.BadFeatureSets("C03", "C18")} },
		RunCase:     runC18,
	})
}

var stdCategories = map[string]bool{"assets": true, "liabilities": true, "equity": true, "expenses": true, "revenues": true, "income": true}

func c18AccountDeclared(name string, declared map[string]bool) bool {
	first := name
	if i := strings.IndexByte(name, ':'); i >= 0 {
		first = name[:i]
	}
	if stdCategories[strings.ToLower(first)] {
		return true
	}
	if declared[name] {
		return true
	}
	for d := range declared {
		if strings.HasPrefix(name, d+":") {
			return true
		}
	}
	return false
}

// c18History: declarations reached through ONE document's includes must not leak into the analysis
// of other documents, nor outlive the include directive that brought them in.
func c18History(c *Ctx, idx int64) {
	r := c.RNG(idx, 9)
	dir := filepath.Join(c.Dir, fmt.Sprintf("h%d", idx))
	os.MkdirAll(dir, 0o755)
	defer os.RemoveAll(dir)
	acct := Pick(r, []string{"bank", "broker", "wallet2", "Konto"})
	cm := Pick(r, []string{"EUR", "BTC", "hours", "₽"})
	rootTx := "2019-01-01 opening\n    assets:cash  5 USD\n    equity:opening\n"
	os.WriteFile(filepath.Join(dir, "main.journal"), []byte("account assets:cash\ncommodity USD\n\n"+rootTx), 0o644)
	os.WriteFile(filepath.Join(dir, "b.journal"), []byte("account "+acct+"\ncommodity "+cm+"\n"), 0o644)
	body := fmt.Sprintf("2019-02-02 side\n    %s:checking  5 %s\n    assets:cash  -5 %s\n", acct, cm, cm)
	withInc := "include b.journal\n\n" + body
	os.WriteFile(filepath.Join(dir, "side.journal"), []byte(withInc), 0o644)
	os.WriteFile(filepath.Join(dir, "other.journal"), []byte(body), 0o644)
	s := NewSession(dir, SessOpt{Root: true})
	s.Drain()
	c.Count("history_cases", 1)
	c.Nontrivial(HashStr(fmt.Sprint("c18h", acct, cm, idx%7)))
	warnings := func(pub *protocol.PublishDiagnosticsParams) []string {
		var out []string
		if pub != nil {
			for _, d := range pub.Diagnostics {
				if k := CodeOf(d); k == "UNDECLARED_ACCOUNT" || k == "UNDECLARED_COMMODITY" {
					out = append(out, k+"|"+d.Message)
				}
			}
		}
		sort.Strings(out)
		return out
	}
	both := []string{"UNDECLARED_ACCOUNT|account '" + acct + ":checking' is not declared", "UNDECLARED_COMMODITY|commodity '" + cm + "' has no directive"}
	sort.Strings(both)
	var trace []string
	step := func(what string, pub *protocol.PublishDiagnosticsParams, ok bool, want []string) bool {
		trace = append(trace, what)
		if !ok {
			c.Inconclusive("no publish in the declaration history")
			return false
		}
		if got := warnings(pub); fmt.Sprint(got) != fmt.Sprint(want) {
			kind := "missing-warning(history)"
			if len(got) > len(want) {
				kind = "spurious-warning(history)"
			}
			c.Violate(Violation{Kind: kind, Sig: "C18:" + kind + "|root|decl=other-document", Pool: "clean",
				Detail:  fmt.Sprintf("after %v: undeclared warnings %v, expected %v (b.journal declares %q and %q and is included by side.journal only)", trace, got, want, acct, cm),
				Witness: map[string]any{"steps": trace, "files": map[string]string{"main.journal": "account assets:cash / commodity USD / a transaction", "b.journal": "account " + acct + " / commodity " + cm, "side.journal": withInc, "other.journal": body}}})
			return false
		}
		return true
	}
	side, other := s.URI("side.journal"), s.URI("other.journal")
	order := r.Intn(3)
	if order == 0 {
		pub, ok := s.OpenWait(other, body)
		if !step("open other.journal (no include)", pub, ok, both) {
			return
		}
	}
	pub, ok := s.OpenWait(side, withInc)
	if !step("open side.journal (includes b.journal)", pub, ok, nil) {
		return
	}
	if order != 0 {
		pub, ok = s.OpenWait(other, body)
		if !step("open other.journal (no include)", pub, ok, both) {
			return
		}
	}
	if order == 2 {
		have := s.Stub.PubCount(other)
		s.ChangeFull(other, body+"\n")
		pub, ok = s.WaitPub(other, have)
		if !step("change other.journal", pub, ok, both) {
			return
		}
	}
	have := s.Stub.PubCount(side)
	s.ChangeFull(side, body)
	pub, ok = s.WaitPub(side, have)
	step("change side.journal: include directive removed", pub, ok, both)
}

// c18Membership: declarations of a file that is a member of the root's include tree count exactly
// as long as an include path reaches it: when the include line that reaches the only declaring
// file is removed (an edit that touches no declaration), the warnings are due; when it comes back,
// they go away again.
func c18Membership(c *Ctx, idx int64) {
	r := c.RNG(idx, 11)
	dir := filepath.Join(c.Dir, fmt.Sprintf("m%d", idx))
	os.MkdirAll(dir, 0o755)
	defer os.RemoveAll(dir)
	acct := Pick(r, []string{"bank", "broker", "wallet2", "Konto"})
	cm := Pick(r, []string{"EUR", "BTC", "hours", "₽"})
	viaMid := r.Bool()
	rootTx := "2019-01-01 opening\n    assets:cash  5 USD\n    equity:opening\n"
	head := "account assets:cash\ncommodity USD\n"
	body := fmt.Sprintf("2019-02-02 side\n    %s:checking  5 %s\n    assets:cash  -5 %s\n", acct, cm, cm)
	// the document whose include line is edited: the root itself, or a file in the middle
	editName, withInc, withoutInc := "main.journal", head+"include decl.journal\ninclude use.journal\n\n"+rootTx, head+"include use.journal\n\n"+rootTx
	if viaMid {
		os.WriteFile(filepath.Join(dir, "main.journal"), []byte(head+"include mid.journal\ninclude use.journal\n\n"+rootTx), 0o644)
		editName, withInc, withoutInc = "mid.journal", "include decl.journal\n\n2019-01-05 mid\n    assets:cash  1 USD\n    equity:opening\n", "\n\n2019-01-05 mid\n    assets:cash  1 USD\n    equity:opening\n"
	}
	os.WriteFile(filepath.Join(dir, editName), []byte(withInc), 0o644)
	os.WriteFile(filepath.Join(dir, "decl.journal"), []byte("account "+acct+"\ncommodity "+cm+"\n"), 0o644)
	os.WriteFile(filepath.Join(dir, "use.journal"), []byte(body), 0o644)
	s := NewSession(dir, SessOpt{Root: true})
	s.Drain()
	c.Count("membership_cases", 1)
	c.Nontrivial(HashStr(fmt.Sprint("c18m", acct, cm, viaMid, idx%7)))
	warnings := func(pub *protocol.PublishDiagnosticsParams) []string {
		var out []string
		if pub != nil {
			for _, d := range pub.Diagnostics {
				if k := CodeOf(d); k == "UNDECLARED_ACCOUNT" || k == "UNDECLARED_COMMODITY" {
					out = append(out, k+"|"+d.Message)
				}
			}
		}
		sort.Strings(out)
		return out
	}
	both := []string{"UNDECLARED_ACCOUNT|account '" + acct + ":checking' is not declared", "UNDECLARED_COMMODITY|commodity '" + cm + "' has no directive"}
	sort.Strings(both)
	var trace []string
	use, edit := s.URI("use.journal"), s.URI(editName)
	text := body
	check := func(what string, want []string) bool {
		trace = append(trace, what)
		// re-analyse use.journal the way an editor would: touch it
		text += "\n"
		have := s.Stub.PubCount(use)
		s.ChangeFull(use, text)
		pub, ok := s.WaitPub(use, have)
		if !ok {
			c.Inconclusive("no publish in the membership history")
			return false
		}
		if got := warnings(pub); fmt.Sprint(got) != fmt.Sprint(want) {
			kind := "missing-warning(membership)"
			if len(got) > len(want) {
				kind = "spurious-warning(membership)"
			}
			c.Violate(Violation{Kind: kind, Sig: "C18:" + kind + "|root|decl=included", Pool: "clean",
				Detail:  fmt.Sprintf("after %v: undeclared warnings of use.journal %v, expected %v (decl.journal alone declares %q and %q and is reached through the include line of %s)", trace, got, want, acct, cm, editName),
				Witness: map[string]any{"steps": trace, "edited_document": editName, "with_include": withInc, "without_include": withoutInc, "use.journal": body}})
			return false
		}
		return true
	}
	if _, ok := s.OpenWait(use, text); !ok {
		c.Inconclusive("no publish in the membership history")
		return
	}
	if !check("open use.journal", nil) {
		return
	}
	s.OpenWait(edit, withInc)
	if !check("open "+editName, nil) {
		return
	}
	rounds := r.Range(1, 2)
	for k := 0; k < rounds; k++ {
		have := s.Stub.PubCount(edit)
		s.ChangeFull(edit, withoutInc)
		s.WaitPub(edit, have)
		s.Drain()
		if !check("change "+editName+": the include line of decl.journal removed", both) {
			return
		}
		have = s.Stub.PubCount(edit)
		s.ChangeFull(edit, withInc)
		s.WaitPub(edit, have)
		s.Drain()
		if !check("change "+editName+": the include line is back", nil) {
			return
		}
	}
}

func runC18(c *Ctx, idx int64) {
	if idx%20 == 8 {
		c18Membership(c, idx)
		return
	}
	if idx%10 == 9 {
		c18History(c, idx)
		return
	}
	st := c.State.(*c18State)
	r := c.RNG(idx, 0)
	nf := Pick(r, []int{1, 2, 2, 3})
	w := genWorkspace(r, st.bad, WSOpt{Files: nf, Entries: [2]int{2, 4}, Shape: "random", LF: true})
	w.Root = r.Chance(1, 2)
	// a sibling file that nothing includes (only meaningful with a workspace folder)
	sibling := ""
	// inject declarations: exact account, parent account, commodity
	var postingAccts, cmds []string
	for f := range w.Names {
		for _, l := range w.Rd[f].Lex {
			if l.Kind == "account" && l.Role != "decl" {
				postingAccts = append(postingAccts, l.Name)
			}
			if l.Kind == "commodity" && l.Name != "" && (l.Role == "amount" || l.Role == "cost" || l.Role == "assert") {
				cmds = append(cmds, l.Name)
			}
		}
	}
	place := Pick(r, []string{"current", "included", "sibling", "nowhere", "current"})
	var decl []string
	if len(postingAccts) > 0 && place != "nowhere" {
		a := Pick(r, postingAccts)
		switch r.Intn(3) {
		case 0:
			decl = append(decl, "account "+a)
		case 1:
			segs := strings.Split(a, ":")
			decl = append(decl, "account "+strings.Join(segs[:r.Range(1, len(segs)-1)], ":"))
		default:
			decl = append(decl, "account "+a, "account zz:never:used")
		}
		if len(cmds) > 0 && r.Bool() {
			cm := Pick(r, cmds)
			if needsQuotes(cm) {
				cm = `"` + cm + `"`
			}
			decl = append(decl, "commodity "+cm)
		}
	}
	target := 0
	if place == "included" && nf > 1 {
		target = r.Range(1, nf-1)
	}
	if place == "sibling" {
		sibling = strings.Join(decl, "\n") + "\n"
		decl = nil
	}
	if len(decl) > 0 {
		// prepend as raw directive entries to the model of the target file
		j := w.Journals[target]
		var es []*MEntry
		for i, d := range decl {
			e := &MEntry{Kind: "dir", Gap: "none", Feats: []string{"dir.injected"}}
			if strings.HasPrefix(d, "account ") {
				e.Dir = &MDir{Kind: "account", Account: strings.TrimPrefix(d, "account "), CGap: "  ", SubInd: "    "}
			} else {
				sym := strings.Trim(strings.TrimPrefix(d, "commodity "), `"`)
				form := "code-right"
				if strings.HasPrefix(strings.TrimPrefix(d, "commodity "), `"`) {
					form = "quoted-right"
				}
				e.Dir = &MDir{Kind: "commodity", Symbol: sym, Sample: &MAmount{Form: form}}
			}
			if i == 0 {
				e.Gap = "one"
			}
			es = append(es, e)
		}
		if len(j.Entries) > 0 && j.Entries[0].Gap == "none" {
			j.Entries[0].Gap = "one"
		}
		// keep include directives first
		ninc := 0
		for ninc < len(j.Entries) && j.Entries[ninc].Kind == "dir" && j.Entries[ninc].Dir.Kind == "include" {
			ninc++
		}
		j.Entries = append(append(append([]*MEntry{}, j.Entries[:ninc]...), es...), j.Entries[ninc:]...)
		if ninc > 0 {
			es[0].Gap = "none"
		}
		w.render()
	}
	dir := filepath.Join(c.Dir, fmt.Sprintf("w%d", idx))
	os.MkdirAll(dir, 0o755)
	defer os.RemoveAll(dir)
	w.Write(dir)
	if sibling != "" {
		os.WriteFile(filepath.Join(dir, "sibling.journal"), []byte(sibling), 0o644)
	}
	// declarations per file from the model
	declAcc := make([]map[string]bool, nf)
	declCm := make([]map[string]bool, nf)
	for f := range w.Names {
		declAcc[f], declCm[f] = map[string]bool{}, map[string]bool{}
		for _, e := range w.Journals[f].Entries {
			if e.Kind != "dir" {
				continue
			}
			switch e.Dir.Kind {
			case "account":
				declAcc[f][e.Dir.Account] = true
			case "commodity", "commodity-sample", "commodity-format":
				declCm[f][e.Dir.Symbol] = true
			}
		}
	}
	judgePresence := !(sibling != "" && w.Root)
	mode := "noroot"
	if w.Root {
		mode = "root"
	}
	fail := func(kind, detail string) {
		c.Violate(Violation{Kind: kind, Sig: "C18:" + kind + "|" + mode + "|decl=" + place, Pool: "clean", Detail: detail,
			Witness: map[string]any{"workspace": w.String(), "workspace_root": w.Root, "declarations": place, "sibling": sibling}})
	}
	reconfigure := r.Bool()
	type combo struct{ a, cm, ub bool }
	var combos []combo
	for k := 0; k < 8; k++ {
		combos = append(combos, combo{k&1 != 0, k&2 != 0, k&4 != 0})
	}
	cfgOf := func(cb combo) map[string]any {
		return map[string]any{"diagnostics": map[string]any{"undeclaredAccounts": cb.a, "undeclaredCommodities": cb.cm, "unbalancedTransactions": cb.ub}}
	}
	var shared *Session
	if reconfigure {
		shared = NewSession(dir, SessOpt{Root: w.Root, SupportsConfig: true})
		shared.Drain()
	}
	for f := range w.Names {
		// scope of the declarations that count for file f
		scope := w.Scope(f)
		da, dc := map[string]bool{}, map[string]bool{}
		for _, g := range scope {
			for k := range declAcc[g] {
				da[k] = true
			}
			for k := range declCm[g] {
				dc[k] = true
			}
		}
		if w.Root {
			// the document's own declarations count even if the root does not reach it
			for k := range declAcc[f] {
				da[k] = true
			}
			for k := range declCm[f] {
				dc[k] = true
			}
		}
		// expected warnings
		var wantAcc, wantCm []string
		for _, e := range w.Journals[f].Entries {
			if e.Kind != "tx" {
				continue
			}
			seen := map[string]bool{}
			pi := 0
			for li := range e.Tx.Lines {
				p := e.Tx.Lines[li].Posting
				if p == nil {
					continue
				}
				line := e.Line0 + 1 + li
				if len(da) > 0 && !c18AccountDeclared(p.Account, da) {
					wantAcc = append(wantAcc, fmt.Sprintf("%d|%s", line, p.Account))
				}
				var syms []string
				if p.Amount != nil {
					syms = append(syms, p.Amount.Commodity)
					if p.Cost != nil {
						syms = append(syms, p.Cost.Amt.Commodity)
					}
				}
				if p.Assert != nil {
					syms = append(syms, p.Assert.Amt.Commodity)
				}
				for _, sy := range syms {
					if len(dc) > 0 && sy != "" && !dc[sy] && !seen[sy] {
						seen[sy] = true
						wantCm = append(wantCm, fmt.Sprintf("%d|%s", e.Line0, sy))
					}
				}
				pi++
			}
		}
		sort.Strings(wantAcc)
		sort.Strings(wantCm)
		c.Count("documents", 1)
		c.Count("expected_account_warnings", int64(len(wantAcc)))
		c.Count("expected_commodity_warnings", int64(len(wantCm)))
		if len(wantAcc)+len(wantCm) > 0 {
			c.Nontrivial(HashStr(fmt.Sprintf("%d|%d", idx, f)))
		}
		// map a line to the first line of its transaction
		txStart := func(line int) int {
			for _, e := range w.Journals[f].Entries {
				if e.Kind == "tx" && line >= e.Line0 && line <= e.Line1 {
					return e.Line0
				}
			}
			return -1
		}
		var others []string // multiset of the codes that are not one of the two undeclared kinds, per combo
		for ci, cb := range combos {
			var pub *protocol.PublishDiagnosticsParams
			var ok bool
			if reconfigure {
				s := shared
				s.Stub.SetConfigAnswers(cfgOf(cb))
				before := s.Stub.ConfigCalls()
				s.Srv.DidChangeConfiguration(s.Ctx, nil)
				for spin := 0; s.Stub.ConfigCalls() == before && spin < 200000; spin++ {
					if spin%1000 == 999 {
						if g := ServerGoroutines(); g.Active == 0 {
							break
						}
					}
				}
				s.Drain()
				u := w.URI(s, f)
				if ci == 0 {
					pub, ok = s.OpenWait(u, w.Texts[f])
				} else {
					have := s.Stub.PubCount(u)
					s.ChangeFull(u, w.Texts[f])
					pub, ok = s.WaitPub(u, have)
				}
				if ci == len(combos)-1 {
					s.Close(u)
				}
			} else {
				s := NewSession(dir, SessOpt{Root: w.Root, InitOptions: cfgOf(cb)})
				s.Drain()
				pub, ok = s.OpenWait(w.URI(s, f), w.Texts[f])
			}
			c.Count("setting_combinations", 1)
			if !ok {
				c.Inconclusive("no publish")
				return
			}
			var gotAcc, gotCm, rest []string
			for _, d := range pub.Diagnostics {
				switch CodeOf(d) {
				case "UNDECLARED_ACCOUNT":
					name := strings.TrimSuffix(strings.TrimPrefix(d.Message, "account '"), "' is not declared")
					gotAcc = append(gotAcc, fmt.Sprintf("%d|%s", d.Range.Start.Line, name))
				case "UNDECLARED_COMMODITY":
					name := strings.TrimSuffix(strings.TrimPrefix(d.Message, "commodity '"), "' has no directive")
					gotCm = append(gotCm, fmt.Sprintf("%d|%s", txStart(int(d.Range.Start.Line)), name))
				default:
					if cb.ub || (CodeOf(d) != "UNBALANCED" && CodeOf(d) != "MULTIPLE_INFERRED") {
						rest = append(rest, fmt.Sprintf("%s|%d|%s", CodeOf(d), d.Range.Start.Line, d.Message))
					}
				}
			}
			sort.Strings(gotAcc)
			sort.Strings(gotCm)
			sort.Strings(rest)
			cbs := fmt.Sprintf("accounts=%v commodities=%v unbalanced=%v", cb.a, cb.cm, cb.ub)
			if !cb.a && len(gotAcc) > 0 {
				fail("setting-leak(accounts)", fmt.Sprintf("%s [%s]: undeclared-account warnings although the setting is off: %v", w.Names[f], cbs, gotAcc))
				return
			}
			if !cb.cm && len(gotCm) > 0 {
				fail("setting-leak(commodities)", fmt.Sprintf("%s [%s]: undeclared-commodity warnings although the setting is off: %v", w.Names[f], cbs, gotCm))
				return
			}
			if judgePresence {
				if cb.a && fmt.Sprint(gotAcc) != fmt.Sprint(wantAcc) {
					kind := "missing-warning(account)"
					if len(gotAcc) > len(wantAcc) {
						kind = "spurious-warning(account)"
					}
					fail(kind, fmt.Sprintf("%s [%s]: undeclared-account warnings %v, expected %v (declared in scope: %v)", w.Names[f], cbs, gotAcc, wantAcc, keysStr(da)))
					return
				}
				if cb.cm && fmt.Sprint(gotCm) != fmt.Sprint(wantCm) {
					kind := "missing-warning(commodity)"
					if len(gotCm) > len(wantCm) {
						kind = "spurious-warning(commodity)"
					}
					fail(kind, fmt.Sprintf("%s [%s]: undeclared-commodity warnings %v, expected %v (declared in scope: %v)", w.Names[f], cbs, gotCm, wantCm, keysStr(dc)))
					return
				}
			}
			// the other kinds are unaffected by these settings
			if cb.ub {
				key := strings.Join(rest, "\n")
				others = append(others, key)
				if len(others) > 1 && others[len(others)-1] != others[0] {
					fail("setting-leak(other-codes)", fmt.Sprintf("%s: the diagnostics of the other kinds differ between setting combinations: %q vs %q", w.Names[f], others[0], key))
					return
				}
			}
		}
	}
	if c.Rep.Evaluations%101 == 0 {
		c.Sample(map[string]any{"case": idx, "files": w.Names, "workspace_root": w.Root, "declarations_in": place, "main": w.Texts[0]})
	}
}

// needsQuotes: a commodity symbol is written bare only when it is a word (letters only) or one of
// the currency signs the lexer reads by themselves; everything else is quoted.
func needsQuotes(sym string) bool {
	rs := []rune(sym)
	if len(rs) == 1 && strings.ContainsRune("$€£¥₽₴", rs[0]) {
		return false
	}
	for _, r := range rs {
		if !unicode.IsLetter(r) {
			return true
		}
	}
	return false
}
