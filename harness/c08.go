package zv

import (
	"context"
	"encoding/json"
	"fmt"
	"os"
	"path/filepath"
	"sort"
	"strings"
	"unicode/utf8"

	"go.lsp.dev/protocol"
)

// C08 Every reported range is well-formed, UTF-16 correct and on target.

func lspLines(text string) []string {
	_, ls := splitLinesLSP(text)
	return ls
}

// checkPos validates one position against the text of its document.
func checkPos(lines []string, p protocol.Position) string {
	if int(p.Line) >= len(lines) {
		return fmt.Sprintf("out-of-bounds: line %d, the document has %d lines", p.Line, len(lines))
	}
	ln := lines[p.Line]
	if int(p.Character) > u16len(ln) {
		return fmt.Sprintf("out-of-bounds: character %d on line %d of length %d", p.Character, p.Line, u16len(ln))
	}
	u := 0
	for b := 0; b < len(ln); {
		if u == int(p.Character) {
			return ""
		}
		r, size := utf8.DecodeRuneInString(ln[b:])
		if r >= 0x10000 {
			u += 2
		} else {
			u++
		}
		b += size
		if u > int(p.Character) {
			return fmt.Sprintf("splits-surrogate: character %d on line %d lies inside a surrogate pair", p.Character, p.Line)
		}
	}
	return ""
}

func checkRange(lines []string, r protocol.Range) string {
	if e := checkPos(lines, r.Start); e != "" {
		return e
	}
	if e := checkPos(lines, r.End); e != "" {
		return e
	}
	if r.Start.Line > r.End.Line || (r.Start.Line == r.End.Line && r.Start.Character > r.End.Character) {
		return fmt.Sprintf("inverted: start %d:%d after end %d:%d", r.Start.Line, r.Start.Character, r.End.Line, r.End.Character)
	}
	return ""
}

type span struct {
	Kind   string
	Name   string
	Line   int
	U0, U1 int
}

// targetSpans lists, per line, the spans a range "reported for" a lexeme may equal.
func targetSpans(rd *Rendered) map[int][]span {
	out := map[int][]span{}
	add := func(s span) { out[s.Line] = append(out[s.Line], s) }
	type akey struct {
		line, posting int
		role          string
	}
	amt := map[akey]*span{}
	for i, l := range rd.Lex {
		if l.Kind == "tagname" {
			// an empty tag value is the empty text behind the colon
			if i+1 >= len(rd.Lex) || rd.Lex[i+1].Kind != "tagvalue" || rd.Lex[i+1].Line != l.Line {
				add(span{"tagvalue", l.Name, l.Line, l.U1, l.U1})
			}
		}
		switch l.Kind {
		case "account", "date", "date2", "desc", "payee", "tagvalue", "path":
			add(span{l.Kind, l.Name, l.Line, l.U0, l.U1})
		case "commodity":
			add(span{l.Kind, l.Name, l.Line, l.U0, l.U1})
		case "tagname":
			add(span{"tagname", l.Name, l.Line, l.U0, l.U1 - 1}) // without the colon
		}
		if (l.Kind == "sign" || l.Kind == "commodity" || l.Kind == "number") && (l.Role == "amount" || l.Role == "cost" || l.Role == "assert") {
			k := akey{l.Line, l.Posting, l.Role}
			if amt[k] == nil {
				amt[k] = &span{"amount", l.Role, l.Line, l.U0, l.U1}
			} else {
				if l.U0 < amt[k].U0 {
					amt[k].U0 = l.U0
				}
				if l.U1 > amt[k].U1 {
					amt[k].U1 = l.U1
				}
			}
		}
	}
	for _, s := range amt {
		add(*s)
	}
	return out
}

func rangeIs(r protocol.Range, line, u0, u1 int) bool {
	return int(r.Start.Line) == line && int(r.End.Line) == line && int(r.Start.Character) == u0 && int(r.End.Character) == u1
}

type c08Fail struct {
	Kind   string // out-of-bounds inverted splits-surrogate not-on-target(x) partial-overlap
	Req    string
	Detail string
}

type c08Ctx struct {
	s     *Session
	w     *WS
	lines [][]string
	spans []map[int][]span
	count func(string, int64)
}

func (x *c08Ctx) generic(req string, uri protocol.DocumentURI, r protocol.Range) *c08Fail {
	f := x.w.FileOfURI(x.s, uri)
	if f < 0 {
		return &c08Fail{"foreign-uri", req, fmt.Sprintf("%s refers to %s, which is not a file of the workspace", req, uri)}
	}
	x.count("ranges_checked", 1)
	if e := checkRange(x.lines[f], r); e != "" {
		return &c08Fail{strings.SplitN(e, ":", 2)[0], req, fmt.Sprintf("%s in %s: %s", req, x.w.Names[f], e)}
	}
	return nil
}

// onSymbol: the range must equal the span of an occurrence of the named symbol on that line.
func (x *c08Ctx) onSymbol(req string, uri protocol.DocumentURI, r protocol.Range, kinds []string, name string) *c08Fail {
	if fl := x.generic(req, uri, r); fl != nil {
		return fl
	}
	f := x.w.FileOfURI(x.s, uri)
	for _, sp := range x.spans[f][int(r.Start.Line)] {
		for _, k := range kinds {
			if sp.Kind == k && (name == "" || sp.Name == name) && rangeIs(r, sp.Line, sp.U0, sp.U1) {
				return nil
			}
		}
	}
	line := ""
	if int(r.Start.Line) < len(x.lines[f]) {
		line = x.lines[f][r.Start.Line]
	}
	return &c08Fail{"not-on-target(" + kinds[0] + ")", req, fmt.Sprintf("%s: range %d:%d-%d:%d in %s is not the span of an occurrence of %s %q on that line %q", req, r.Start.Line, r.Start.Character, r.End.Line, r.End.Character, x.w.Names[f], kinds[0], name, line)}
}

// underCursor: the range must equal the span of a lexeme (of the given kinds) that contains the cursor.
func (x *c08Ctx) underCursor(req string, f int, pos protocol.Position, r protocol.Range, kinds map[string]bool) *c08Fail {
	if fl := x.generic(req, x.w.URI(x.s, f), r); fl != nil {
		return fl
	}
	for _, sp := range x.spans[f][int(pos.Line)] {
		if kinds[sp.Kind] && sp.U0 <= int(pos.Character) && int(pos.Character) <= sp.U1 && rangeIs(r, sp.Line, sp.U0, sp.U1) {
			return nil
		}
	}
	var cand []string
	for _, sp := range x.spans[f][int(pos.Line)] {
		if kinds[sp.Kind] {
			cand = append(cand, fmt.Sprintf("%s %d-%d", sp.Kind, sp.U0, sp.U1))
		}
	}
	return &c08Fail{"not-on-target(cursor)", req, fmt.Sprintf("%s with the cursor at %d:%d of %s returns range %d:%d-%d:%d, which is not the span of a lexeme under the cursor (candidates %v) in line %q", req, pos.Line, pos.Character, x.w.Names[f], r.Start.Line, r.Start.Character, r.End.Line, r.End.Character, cand, x.lines[f][pos.Line])}
}

var hoverKinds = map[string]bool{"account": true, "date": true, "desc": true, "payee": true, "tagname": true, "tagvalue": true, "amount": true}
var symbolKinds = map[string]bool{"account": true, "commodity": true, "desc": true, "payee": true}

// nestedOrDisjoint checks half-open position ranges (or inclusive line intervals scaled) pairwise.
type ival struct {
	a, b  int64
	label string
}

func partialOverlap(xs []ival) (ival, ival, bool) {
	for i := range xs {
		for k := i + 1; k < len(xs); k++ {
			p, q := xs[i], xs[k]
			if p.b <= q.a || q.b <= p.a {
				continue // disjoint (touching allowed)
			}
			if (p.a <= q.a && q.b <= p.b) || (q.a <= p.a && p.b <= q.b) {
				continue // nested
			}
			return p, q, true
		}
	}
	return ival{}, ival{}, false
}

func posKey(p protocol.Position) int64 { return int64(p.Line)<<20 | int64(p.Character) }

func (x *c08Ctx) checkFile(f int, pub *protocol.PublishDiagnosticsParams, allPositions bool, r *RNG) *c08Fail {
	s, w := x.s, x.w
	ctx := context.Background()
	uri := w.URI(s, f)
	id := protocol.TextDocumentIdentifier{URI: uri}
	// diagnostics
	if pub != nil {
		for _, d := range pub.Diagnostics {
			req := "diagnostic(" + CodeOf(d) + ")"
			switch CodeOf(d) {
			case "UNDECLARED_COMMODITY":
				if fl := x.onSymbol(req, uri, d.Range, []string{"commodity"}, ""); fl != nil {
					return fl
				}
			default:
				if fl := x.generic(req, uri, d.Range); fl != nil {
					return fl
				}
				// a problem with an included file is shown on an include directive of this document
				if strings.Contains(d.Message, "included file") || strings.Contains(d.Message, "cycle detected") || strings.Contains(d.Message, "include depth") {
					onInclude := false
					for _, l := range w.lexOnLine(f, int(d.Range.Start.Line)) {
						if l.Kind == "path" && int(d.Range.Start.Line) == int(d.Range.End.Line) {
							onInclude = true
						}
					}
					if !onInclude {
						return &c08Fail{"not-on-target(include)", "diagnostic(include)", fmt.Sprintf("%s: the include problem %q is reported at %s, where this document has no include directive", w.Names[f], d.Message, rangeStr(d.Range))}
					}
				}
			}
		}
	}
	// whole-document requests
	ds, _ := s.Srv.DocumentSymbol(ctx, &protocol.DocumentSymbolParams{TextDocument: id})
	var outline []ival
	for i, it := range ds {
		b, _ := json.Marshal(it)
		var sym protocol.DocumentSymbol
		json.Unmarshal(b, &sym)
		if fl := x.generic("documentSymbol.range", uri, sym.Range); fl != nil {
			return fl
		}
		if fl := x.generic("documentSymbol.selectionRange", uri, sym.SelectionRange); fl != nil {
			return fl
		}
		outline = append(outline, ival{posKey(sym.Range.Start), posKey(sym.Range.End), fmt.Sprintf("#%d %q %d:%d-%d:%d", i, sym.Name, sym.Range.Start.Line, sym.Range.Start.Character, sym.Range.End.Line, sym.Range.End.Character)})
	}
	if p, q, bad := partialOverlap(outline); bad {
		return &c08Fail{"partial-overlap(outline)", "documentSymbol", fmt.Sprintf("outline symbols of different entries partially overlap in %s: %s and %s", w.Names[f], p.label, q.label)}
	}
	frs, _ := s.Srv.FoldingRanges(ctx, &protocol.FoldingRangeParams{TextDocumentPositionParams: protocol.TextDocumentPositionParams{TextDocument: id}})
	var folds []ival
	for i, fr := range frs {
		x.count("ranges_checked", 1)
		if int(fr.EndLine) >= len(x.lines[f]) || fr.StartLine > fr.EndLine {
			return &c08Fail{"out-of-bounds", "foldingRange", fmt.Sprintf("fold %d of %s spans lines %d-%d, the document has %d lines", i, w.Names[f], fr.StartLine, fr.EndLine, len(x.lines[f]))}
		}
		// inclusive line intervals -> half-open
		folds = append(folds, ival{int64(fr.StartLine), int64(fr.EndLine) + 1, fmt.Sprintf("#%d lines %d-%d", i, fr.StartLine, fr.EndLine)})
	}
	if p, q, bad := partialOverlap(folds); bad {
		return &c08Fail{"partial-overlap(folds)", "foldingRange", fmt.Sprintf("fold regions of different entries partially overlap in %s: %s and %s", w.Names[f], p.label, q.label)}
	}
	links, _ := s.Srv.DocumentLink(ctx, &protocol.DocumentLinkParams{TextDocument: id})
	for _, l := range links {
		if fl := x.onSymbol("documentLink", uri, l.Range, []string{"path"}, ""); fl != nil {
			return fl
		}
	}
	// cursor requests at every position
	for ln, text := range x.lines[f] {
		ps := linePositions(text)
		if !allPositions && len(ps) > 6 {
			sub := []int{ps[0], ps[len(ps)-1]}
			for k := 0; k < 4; k++ {
				sub = append(sub, ps[r.Intn(len(ps))])
			}
			ps = sub
		}
		for _, ch := range ps {
			pos := protocol.Position{Line: uint32(ln), Character: uint32(ch)}
			tdp := protocol.TextDocumentPositionParams{TextDocument: id, Position: pos}
			x.count("cursor_positions", 1)
			if hv, _ := s.Srv.Hover(ctx, &protocol.HoverParams{TextDocumentPositionParams: tdp}); hv != nil && hv.Range != nil {
				if fl := x.underCursor("hover", f, pos, *hv.Range, hoverKinds); fl != nil {
					return fl
				}
			}
			if pr, _ := s.Srv.PrepareRename(ctx, &protocol.PrepareRenameParams{TextDocumentPositionParams: tdp}); pr != nil {
				if fl := x.underCursor("prepareRename", f, pos, *pr, symbolKinds); fl != nil {
					return fl
				}
				// the symbol under the cursor
				var symKind, symName string
				for _, sp := range x.spans[f][ln] {
					if symbolKinds[sp.Kind] && rangeIs(*pr, sp.Line, sp.U0, sp.U1) {
						symKind, symName = sp.Kind, sp.Name
					}
				}
				kinds := []string{symKind}
				if symKind == "desc" || symKind == "payee" {
					kinds = []string{"payee", "desc"}
				}
				refs, _ := s.Srv.References(ctx, &protocol.ReferenceParams{TextDocumentPositionParams: tdp, Context: protocol.ReferenceContext{IncludeDeclaration: ch%2 == 0}})
				for _, loc := range refs {
					if fl := x.onSymbol("references", loc.URI, loc.Range, kinds, symName); fl != nil {
						return fl
					}
				}
				if we, _ := s.Srv.Rename(ctx, &protocol.RenameParams{TextDocumentPositionParams: tdp, NewName: "new:name"}); we != nil {
					for u, edits := range we.Changes {
						for _, e := range edits {
							if fl := x.onSymbol("rename", u, e.Range, kinds, symName); fl != nil {
								return fl
							}
						}
					}
				}
			}
			if defs, _ := s.Srv.Definition(ctx, &protocol.DefinitionParams{TextDocumentPositionParams: tdp}); len(defs) > 0 {
				for _, loc := range defs {
					if fl := x.generic("definition", loc.URI, loc.Range); fl != nil {
						return fl
					}
				}
			}
			if cl, _ := s.Srv.Completion(ctx, &protocol.CompletionParams{TextDocumentPositionParams: tdp}); cl != nil {
				for _, it := range cl.Items {
					if it.TextEdit != nil {
						if fl := x.generic("completion.textEdit", uri, it.TextEdit.Range); fl != nil {
							return fl
						}
						break // all items of one answer share the range
					}
				}
			}
			pj, _ := json.Marshal(map[string]any{"textDocument": id, "position": pos, "context": map[string]any{"triggerKind": 1}})
			if ic, _ := s.Srv.InlineCompletion(ctx, pj); ic != nil {
				for _, it := range ic.Items {
					if it.Range != nil {
						if fl := x.generic("inlineCompletion.range", uri, *it.Range); fl != nil {
							return fl
						}
					}
				}
			}
		}
	}
	return nil
}

func (x *c08Ctx) checkWorkspaceSymbols() *c08Fail {
	syms, _ := x.s.Srv.WorkspaceSymbol(context.Background(), &protocol.WorkspaceSymbolParams{Query: ""})
	for _, sy := range syms {
		var kinds []string
		switch sy.Kind {
		case protocol.SymbolKindClass:
			kinds = []string{"account"}
		case protocol.SymbolKindEnum:
			kinds = []string{"commodity"}
		default:
			kinds = []string{"payee", "desc"}
		}
		if fl := x.onSymbol("workspaceSymbol", sy.Location.URI, sy.Location.Range, kinds, sy.Name); fl != nil {
			return fl
		}
	}
	return nil
}

type c08State struct {
	bad       [][]string
	unreduced map[string]int
}

func c08Counts(tier string) int64 {
	if tier == "thorough" {
		return 40000
	}
	return 4000
}

func init() {
	Register(&Prop{
		ID:          "C08",
		Rule:        "workspaces of 1-3 journals from G (non-ASCII and non-BMP text in descriptions, accounts, comments and commodities; status/code/date2/wide separators before the payee; adjacent entries without blank line) with and without workspace root; every file is opened; for EVERY cursor position of every line (UTF-16, code-point boundaries, end of line included): hover, prepareRename, references, rename, definition, completion, inlineCompletion; per document: published diagnostics, documentSymbol, foldingRange, documentLink; workspace/symbol. Generic validator against the text of the document the URI names (line/character bounds in UTF-16, start<=end, no split surrogate pair); target validator from the lexeme table (hover/prepareRename range = span of the lexeme under the cursor; reference/rename/workspace-symbol/link/undeclared-commodity ranges = span of an occurrence of that symbol on that line); structure validator (folds as inclusive line intervals, outline symbols as half-open ranges: disjoint or nested). The first cases force combinations of a non-ASCII feature with tags (incl. date tags, whose diagnostics carry ranges) in header/posting/transaction comments, costs, assertions, codes on a plain background. Non-trivial = workspace with >=1 non-ASCII line and >=10 cursor positions; distinct by workspace text hash.",
		Notes:       []string{"where a transaction's fold or outline range should end is not judged beyond the no-partial-overlap rule", "definition targets (whole directive / whole transaction) are judged by the generic validator only"},
		Cases:       func(tier string) int64 { return c08Counts(tier) + int64(len(c08Forced())*c08ForcedReps) },
		MustObserve: []string{"workspaces", "cursor_positions", "ranges_checked", "forced_combination_cases"},
		Setup:       func(c *Ctx) { c.State = &c08State{bad: c.Known.BadFeatureSets("C03", "C08")} },
		RunCase:     runC08,
	})
}

func c08Run(c *Ctx, dir string, w *WS, r *RNG, allPositions bool) *c08Fail {
	os.RemoveAll(dir)
	os.MkdirAll(dir, 0o755)
	defer os.RemoveAll(dir)
	w.Write(dir)
	s := NewSession(dir, SessOpt{Root: w.Root})
	x := &c08Ctx{s: s, w: w, count: c.Count}
	for f := range w.Names {
		x.lines = append(x.lines, lspLines(w.Texts[f]))
		x.spans = append(x.spans, targetSpans(w.Rd[f]))
	}
	pubs := make([]*protocol.PublishDiagnosticsParams, len(w.Names))
	for f := range w.Names {
		p, ok := s.OpenWait(w.URI(s, f), w.Texts[f])
		if ok {
			pubs[f] = p
		}
	}
	s.Drain()
	for f := range w.Names {
		if fl := x.checkFile(f, pubs[f], allPositions, r); fl != nil {
			return fl
		}
	}
	return x.checkWorkspaceSymbols()
}

// c08Forced: feature combinations that put non-ASCII text in front of position-carrying lexemes
// (tags in header/posting/transaction comments incl. date tags whose diagnostics carry ranges,
// costs, assertions, codes), forced on a plain background.
func c08Forced() [][]string {
	var out [][]string
	nonASCII := []string{"desc.bmp", "desc.nonbmp", "acct.bmp", "acct.nonbmp", "acct.nonbmp-letter", "cmdty.bmp-right"}
	cpos := map[string]string{"hcmt": "has.hcomment", "pcmt": "has.pcomment", "tcmt": "has.txcomment"}
	for _, na := range nonASCII {
		for _, p := range []string{"hcmt", "pcmt", "tcmt"} {
			for _, tk := range []string{"", "tag.date-empty", "tag.date-invalid", "tag.date", "tag.bmp-value", "tag.empty"} {
				fs := []string{na, cpos[p], p + ".tags"}
				if tk != "" {
					fs = append(fs, tk)
				}
				out = append(out, fs)
			}
			out = append(out, []string{na, cpos[p], p + ".free-tags"}, []string{na, cpos[p], p + ".nonbmp"})
		}
		for _, o := range [][]string{{"has.cost"}, {"has.assert"}, {"code.plain"}, {"hdr.date2"}, {"hdr.payee-note"}, {"status.star", "code.plain", "hdr.date2"}, {"cmdty.quoted-right"}, {"cmdty.sym-left", "sign.precomm"}} {
			out = append(out, append([]string{na}, o...))
		}
	}
	// non-ASCII text inside delimited tokens (code, quoted commodity) in front of further lexemes
	for _, o := range [][]string{{"code.nonascii"}, {"code.nonascii", "hdr.payee-note"}, {"code.nonascii", "has.hcomment", "hcmt.tags"}, {"code.nonascii", "hdr.date2", "status.star"},
		{"cmdty.quoted-symbols"}, {"cmdty.quoted-symbols", "has.cost"}, {"cmdty.quoted-symbols", "has.assert"}, {"cmdty.quoted-symbols", "has.pcomment", "pcmt.tags"}, {"cmdty.quoted-symbols", "has.totalcost"}} {
		for k := 0; k < 6; k++ {
			out = append(out, o)
		}
	}
	return out
}

const c08ForcedReps = 3

func runC08(c *Ctx, idx int64) {
	st := c.State.(*c08State)
	r := c.RNG(idx, 0)
	forced := c08Forced()
	var w *WS
	if int(idx) < len(forced)*c08ForcedReps {
		fs := forced[int(idx)/c08ForcedReps]
		if isBadSet(st.bad, fs) {
			return
		}
		j, ok := ForcedJournal(r, st.bad, fs, idx%2 == 1)
		if !ok {
			c.Count("forced_unrealised", 1)
			return
		}
		c.Count("forced_combination_cases", 1)
		w = singleFileWS(j)
	} else {
		nf := Pick(r, []int{1, 1, 2, 3})
		shape := "random"
		deepError := nf == 3 && r.Chance(1, 2)
		if deepError {
			shape = "chain"
		}
		w = genWorkspace(r, st.bad, WSOpt{Files: nf, Entries: [2]int{1, 4}, Shape: shape})
		if deepError {
			// the innermost file of the chain main -> a -> b names a file that does not exist, far
			// down: the problem has to be shown on each document's OWN include directive
			j := w.Journals[nf-1]
			for k := 0; k < 12; k++ {
				j.Entries = append(j.Entries, &MEntry{Kind: "comment", Gap: "none", Comment: &MComment{Lead: " ", Free: "padding"}})
			}
			j.Entries = append(j.Entries, &MEntry{Kind: "dir", Gap: "one", Dir: &MDir{Kind: "include", Path: "nowhere-to-be-found.journal"}, Feats: []string{"dir.include"}})
			// the middle file names the innermost one at its end, on a line where main has no directive
			mid := w.Journals[1]
			var inc, rest []*MEntry
			for _, e := range mid.Entries {
				if e.Kind == "dir" && e.Dir.Kind == "include" {
					e.Gap = "one"
					inc = append(inc, e)
				} else {
					rest = append(rest, e)
				}
			}
			for k := 0; k < 5; k++ {
				rest = append(rest, &MEntry{Kind: "comment", Gap: "none", Comment: &MComment{Lead: " ", Free: "padding"}})
			}
			mid.Entries = append(rest, inc...)
			w.render()
			c.Count("deep_include_error_workspaces", 1)
		}
	}
	w.Root = r.Chance(1, 3)
	dir := filepath.Join(c.Dir, fmt.Sprintf("w%d", idx))
	c.Count("workspaces", 1)
	nonASCII := false
	for _, t := range w.Texts {
		for i := 0; i < len(t); i++ {
			if t[i] >= 0x80 {
				nonASCII = true
			}
		}
	}
	fl := c08Run(c, dir, w, r, true)
	if nonASCII {
		c.Nontrivial(HashStr(w.String()))
	}
	if fl == nil {
		if c.Rep.Evaluations%97 == 0 {
			c.Sample(map[string]any{"case": idx, "files": w.Names, "workspace_root": w.Root, "text_main": w.Texts[0]})
		}
		return
	}
	feats := w.AllFeats()
	if fl.Kind == "not-on-target(include)" {
		// needs an include chain: not reducible to one file
		c.Violate(Violation{Kind: fl.Kind, Sig: fmt.Sprintf("C08:%s|%s|include-chain", fl.Kind, fl.Req), Pool: "clean", Detail: fl.Detail,
			Witness: map[string]any{"workspace": w.String(), "workspace_root": w.Root, "features": feats}})
		return
	}
	// a failure that needs several files cannot be reproduced on one: after three fruitless
	// reductions of the same kind in this shard the reduction is skipped
	rk := fl.Kind + "|" + fl.Req
	if len(w.Names) > 1 && st.unreduced[rk] >= 3 {
		c.Violate(Violation{Kind: fl.Kind, Sig: fmt.Sprintf("C08:%s|%s|several-files", fl.Kind, fl.Req), Pool: "clean", Detail: fl.Detail,
			Witness: map[string]any{"workspace": w.String(), "workspace_root": w.Root, "features": feats}})
		return
	}
	// reduce to the smallest feature set that reproduces the same kind on one file
	red := MinimalFailing(feats, func(j *MJournal) bool {
		w2 := singleFileWS(j)
		f2 := c08Run(c, dir+"r", w2, NewRNG(1), false)
		return f2 != nil && f2.Kind == fl.Kind && f2.Req == fl.Req
	})
	if len(w.Names) > 1 && len(red) > 0 && red[len(red)-1] == "ctx.unreduced" {
		if st.unreduced == nil {
			st.unreduced = map[string]int{}
		}
		st.unreduced[rk]++
	}
	sig := fmt.Sprintf("C08:%s|%s|feat:%s", fl.Kind, fl.Req, featKey(red))
	c.Violate(Violation{Kind: fl.Kind, Sig: sig, Pool: "clean", Features: red, Detail: fl.Detail,
		Witness: map[string]any{"workspace": w.String(), "workspace_root": w.Root, "features": feats}})
}

var _ = sort.Strings
