package zv

import (
	"context"
	"fmt"
	"os"
	"path/filepath"
	"sort"
	"strings"

	"go.lsp.dev/protocol"

	"github.com/juev/hledger-lsp/internal/parser"
)

// C09 References and rename hit exactly the symbol's occurrences, in the right files.

type occ struct {
	File   int
	Line   int
	U0, U1 int
	Decl   bool
	Opt    bool // occurrence the statement does not name (P / D / format lines): allowed, not required
}

func (o occ) key() string { return fmt.Sprintf("%d@%d:%d-%d", o.File, o.Line, o.U0, o.U1) }

// occurrences of a symbol over the files in scope, from the lexeme tables.
func (w *WS) occurrences(kind, name string, scope []int) []occ {
	var out []occ
	for _, f := range scope {
		for _, l := range w.Rd[f].Lex {
			if l.Name != name {
				continue
			}
			switch kind {
			case "account":
				if l.Kind == "account" {
					out = append(out, occ{File: f, Line: l.Line, U0: l.U0, U1: l.U1, Decl: l.Role == "decl"})
				}
			case "commodity":
				if l.Kind == "commodity" {
					o := occ{File: f, Line: l.Line, U0: l.U0, U1: l.U1}
					switch l.Role {
					case "amount", "cost", "assert":
					case "decl":
						o.Decl = true
					default:
						o.Opt = true
					}
					out = append(out, o)
				}
			case "payee":
				if l.Kind == "desc" || l.Kind == "payee" {
					out = append(out, occ{File: f, Line: l.Line, U0: l.U0, U1: l.U1})
				}
			}
		}
	}
	return out
}

type c09State struct{ bad [][]string }

func c09Counts(tier string) int64 {
	if tier == "thorough" {
		return 60000
	}
	return 8000
}

func init() {
	Register(&Prop{
		ID:          "C09",
		Rule:        "workspaces of 1-4 journals from G with shared account/payee/commodity pools (chains, stars, diamonds, random DAGs), with and without workspace root, optionally with an unsaved edit in one open included file, or with the root's first include directive added by an unsaved edit after start-up (the included file and its own includes join the tree then); for the cursor on every occurrence of every account, commodity and payee, asked from the root and from every included file: references with and without declarations must be exactly the occurrences in the lexeme tables of the files in scope (workspace tree with a root, the file and its include closure without), each under the URI of the file that contains it; rename must return edits at exactly those spans, and applying them must give exactly the texts in which every occurrence reads the new name (nothing else changes), which must parse silently. In a third of the multi-file cases a last step deletes an open leaf file on disk and closes it: with no further notification, references and rename asked from the root must not mention that file any more and must still list everything else. Non-trivial = symbol with occurrences in >=2 files; distinct by workspace+symbol hash.",
		Notes:       []string{"commodity occurrences in P/D/format lines are allowed but not required (the statement names amounts, costs, assertions and commodity directives)", "new names are plain (no quoting needed)"},
		Cases:       c09Counts,
		MustObserve: []string{"workspaces", "reference_requests", "rename_requests", "symbols_in_several_files"},
		Setup:       func(c *Ctx) { c.State = &c09State{bad: c.Known.BadFeatureSets("C03", "C08", "C09")} },
		RunCase:     runC09,
	})
}

func runC09(c *Ctx, idx int64) {
	st := c.State.(*c09State)
	r := c.RNG(idx, 0)
	nf := Pick(r, []int{1, 2, 2, 3, 3, 4})
	w := genWorkspace(r, st.bad, WSOpt{Files: nf, Entries: [2]int{1, 3}, Shape: Pick(r, []string{"chain", "star", "diamond", "random"}), LF: r.Chance(2, 3)})
	w.Root = r.Chance(1, 2)
	dir := filepath.Join(c.Dir, fmt.Sprintf("w%d", idx))
	os.MkdirAll(dir, 0o755)
	defer os.RemoveAll(dir)
	// optional unsaved edit: one included file is open with a buffer that differs from disk
	unsaved := -1
	var diskTexts []string
	diskTexts = append(diskTexts, w.Texts...)
	if nf >= 2 && r.Chance(1, 3) {
		unsaved = r.Range(1, nf-1)
		// the disk copy lacks the last entry of the buffer
		j := *w.Journals[unsaved]
		if len(j.Entries) > 1 {
			j.Entries = j.Entries[:len(j.Entries)-1]
			diskTexts[unsaved] = j.Render().Text
			w.render()
		} else {
			unsaved = -1
		}
	}
	// optional dynamic include: the root at first lacks its first include directive (the file
	// and whatever it includes are not part of the tree), which an unsaved edit then adds
	dynamic := false
	rootInitial := w.Texts[0]
	if unsaved != 0 && len(w.Includes[0]) > 0 && r.Chance(1, 3) {
		j := *w.Journals[0]
		j.Entries = append([]*MEntry(nil), j.Entries[1:]...)
		if len(j.Entries) > 0 {
			cp := *j.Entries[0]
			if cp.Gap == "none" {
				cp.Gap = "one"
			}
			j.Entries[0] = &cp
		}
		rootInitial = j.Render().Text
		w.render()
		diskTexts[0] = rootInitial
		dynamic = true
	}
	for i, n := range w.Names {
		p := filepath.Join(dir, n)
		os.MkdirAll(filepath.Dir(p), 0o755)
		os.WriteFile(p, []byte(diskTexts[i]), 0o644)
	}
	s := NewSession(dir, SessOpt{Root: w.Root})
	s.Drain()
	c.Count("workspaces", 1)
	// the document with the unsaved edit is sometimes opened under another spelling of its URI (the
	// first letter of the file name percent-encoded); the server answers with its own spelling
	altSpelling := unsaved >= 0 && r.Chance(1, 3)
	docURI := func(f int) protocol.DocumentURI {
		u := w.URI(s, f)
		if altSpelling && f == unsaved {
			us := string(u)
			i := strings.LastIndexByte(us, '/') + 1
			return protocol.DocumentURI(us[:i] + fmt.Sprintf("%%%02x", us[i]) + us[i+1:])
		}
		return u
	}
	if altSpelling {
		c.Count("workspaces_with_other_uri_spelling", 1)
	}
	addInclude := func() {
		c.Count("workspaces_with_include_added_by_edit", 1)
		u := w.URI(s, 0)
		s.OpenWait(u, rootInitial)
		have := s.Stub.PubCount(u)
		s.ChangeFull(u, w.Texts[0])
		s.WaitPub(u, have)
	}
	editUnsaved := func() {
		c.Count("workspaces_with_unsaved_edit", 1)
		u := docURI(unsaved)
		s.OpenWait(u, diskTexts[unsaved])
		have := s.Stub.PubCount(u)
		s.ChangeFull(u, w.Texts[unsaved])
		s.WaitPub(u, have)
	}
	// the unsaved edit may precede the edit that brings the file into the tree: the editor's text counts
	if dynamic && unsaved > 0 && r.Bool() {
		c.Count("workspaces_with_unsaved_edit_before_the_include", 1)
		editUnsaved()
		addInclude()
	} else {
		if dynamic {
			addInclude()
		}
		if unsaved >= 0 {
			editUnsaved()
		}
	}
	// with an include added by an edit the other files stay on disk in half of the cases: opening
	// them would bring them into the workspace by another road
	isOpen := make([]bool, len(w.Names))
	leaveClosed := dynamic && r.Bool()
	for f := range w.Names {
		if f == unsaved || (dynamic && f == 0) {
			isOpen[f] = true
			continue
		}
		if leaveClosed {
			continue
		}
		s.OpenWait(w.URI(s, f), w.Texts[f])
		isOpen[f] = true
	}
	if leaveClosed {
		c.Count("workspaces_with_files_left_on_disk", 1)
	}
	s.Drain()
	ctx := context.Background()
	fail := func(kind, detail string, extra map[string]any) {
		wit := map[string]any{"workspace": w.String(), "workspace_root": w.Root, "unsaved_edit_in": unsaved}
		for k, v := range extra {
			wit[k] = v
		}
		mode := "noroot"
		if w.Root {
			mode = "root"
		}
		if unsaved >= 0 {
			mode += "+unsaved"
		}
		if dynamic {
			mode += "+include-added"
		}
		c.Violate(Violation{Kind: kind, Sig: "C09:" + kind + "|" + mode, Pool: "clean", Detail: detail, Witness: wit})
	}
	// symbols: every (kind,name) with an occurrence
	type sym struct{ kind, name string }
	seen := map[sym]bool{}
	for f := range w.Names {
		for _, l := range w.Rd[f].Lex {
			switch l.Kind {
			case "account":
				seen[sym{"account", l.Name}] = true
			case "commodity":
				if l.Name != "" {
					seen[sym{"commodity", l.Name}] = true
				}
			case "desc", "payee":
				seen[sym{"payee", l.Name}] = true
			}
		}
	}
	var syms []sym
	for k := range seen {
		syms = append(syms, k)
	}
	sort.Slice(syms, func(i, j int) bool { return syms[i].kind+syms[i].name < syms[j].kind+syms[j].name })
	for _, sy := range syms {
		for from := range w.Names {
			if !isOpen[from] {
				continue
			}
			scope := w.Scope(from)
			occs := w.occurrences(sy.kind, sy.name, scope)
			files := map[int]bool{}
			for _, o := range occs {
				files[o.File] = true
			}
			if len(files) >= 2 {
				c.Count("symbols_in_several_files", 1)
				c.Nontrivial(HashStr(fmt.Sprintf("%d|%s|%s|%d", idx, sy.kind, sy.name, from)))
			}
			// cursor on every occurrence in the requesting file that is a request target
			for _, o := range occs {
				if o.File != from || o.Opt {
					continue
				}
				if o.Decl {
					continue // the cursor on a declaration is not a request target in this server
				}
				pos := protocol.TextDocumentPositionParams{TextDocument: protocol.TextDocumentIdentifier{URI: docURI(from)},
					Position: protocol.Position{Line: uint32(o.Line), Character: uint32(o.U0 + (o.U1-o.U0)/2)}}
				for _, withDecl := range []bool{false, true} {
					got, _ := s.Srv.References(ctx, &protocol.ReferenceParams{TextDocumentPositionParams: pos, Context: protocol.ReferenceContext{IncludeDeclaration: withDecl}})
					c.Count("reference_requests", 1)
					want := map[string]bool{}
					optional := map[string]bool{}
					for _, x := range occs {
						if x.Opt {
							optional[x.key()] = true
							continue
						}
						if x.Decl && !withDecl {
							continue
						}
						want[x.key()] = true
					}
					gotSet := map[string]bool{}
					for _, loc := range got {
						gf := w.FileOfURI(s, loc.URI)
						k := fmt.Sprintf("%d@%d:%d-%d", gf, loc.Range.Start.Line, loc.Range.Start.Character, loc.Range.End.Character)
						if loc.Range.Start.Line != loc.Range.End.Line {
							k += fmt.Sprintf("..%d", loc.Range.End.Line)
						}
						if gotSet[k] {
							fail("duplicate", fmt.Sprintf("references for %s %q lists %s twice", sy.kind, sy.name, k), nil)
							return
						}
						gotSet[k] = true
					}
					for k := range want {
						if !gotSet[k] {
							where := "other-file"
							if strings.HasPrefix(k, fmt.Sprint(from)+"@") {
								where = "same-file"
							}
							fail("missing("+sy.kind+","+where+")", fmt.Sprintf("references (declarations=%v) for %s %q asked from %s at %d:%d misses occurrence %s; got %v, expected %v", withDecl, sy.kind, sy.name, w.Names[from], o.Line, o.U0, k, keysStr(gotSet), keysStr(want)), nil)
							return
						}
					}
					for k := range gotSet {
						if !want[k] && !optional[k] {
							fail("spurious("+sy.kind+")", fmt.Sprintf("references (declarations=%v) for %s %q asked from %s at %d:%d returns %s, which is not an occurrence; expected %v", withDecl, sy.kind, sy.name, w.Names[from], o.Line, o.U0, k, keysStr(want)), nil)
							return
						}
					}
				}
				// rename from this occurrence
				newName := map[string]string{"account": "renamed:acct", "commodity": "XYZ", "payee": "Renamed Payee"}[sy.kind]
				we, _ := s.Srv.Rename(ctx, &protocol.RenameParams{TextDocumentPositionParams: pos, NewName: newName})
				c.Count("rename_requests", 1)
				if we == nil {
					fail("rename-missing", fmt.Sprintf("rename of %s %q at %s %d:%d returns nothing", sy.kind, sy.name, w.Names[from], o.Line, o.U0), nil)
					return
				}
				// expected texts: every required occurrence (declarations included) replaced
				for _, f := range scope {
					var spans []protocol.TextEdit
					for _, x := range occs {
						if x.File == f && !x.Opt {
							spans = append(spans, protocol.TextEdit{Range: protocol.Range{Start: protocol.Position{Line: uint32(x.Line), Character: uint32(x.U0)}, End: protocol.Position{Line: uint32(x.Line), Character: uint32(x.U1)}}, NewText: newName})
						}
					}
					wantText, _ := applyEdits(w.Texts[f], spans)
					// optional occurrences may or may not be renamed: accept both
					var spansOpt []protocol.TextEdit
					spansOpt = append(spansOpt, spans...)
					for _, x := range occs {
						if x.File == f && x.Opt {
							spansOpt = append(spansOpt, protocol.TextEdit{Range: protocol.Range{Start: protocol.Position{Line: uint32(x.Line), Character: uint32(x.U0)}, End: protocol.Position{Line: uint32(x.Line), Character: uint32(x.U1)}}, NewText: newName})
						}
					}
					wantTextOpt, _ := applyEdits(w.Texts[f], spansOpt)
					fileEdits := we.Changes[w.URI(s, f)]
					if len(fileEdits) == 0 {
						fileEdits = we.Changes[docURI(f)]
					}
					gotText, prob := applyEdits(w.Texts[f], fileEdits)
					if prob != nil {
						fail("rename-malformed", fmt.Sprintf("rename of %s %q: edits for %s are not well-formed: %s", sy.kind, sy.name, w.Names[f], prob.Detail), nil)
						return
					}
					if gotText != wantText && gotText != wantTextOpt {
						fail("rename-damage("+sy.kind+")", fmt.Sprintf("rename of %s %q (asked from %s) leaves %s different from the text in which exactly its occurrences read %q", sy.kind, sy.name, w.Names[from], w.Names[f], newName), map[string]any{"got": gotText, "want": wantText})
						return
					}
					if _, errs := parser.Parse(gotText); len(errs) > 0 {
						fail("rename-breaks-syntax", fmt.Sprintf("after renaming %s %q, %s has syntax errors: %v", sy.kind, sy.name, w.Names[f], errs[0]), map[string]any{"got": gotText})
						return
					}
				}
				for u := range we.Changes {
					gf := w.FileOfURI(s, u)
					inScope := false
					for _, f := range scope {
						if f == gf {
							inScope = true
						}
					}
					if !inScope {
						fail("wrong-file", fmt.Sprintf("rename of %s %q edits %s, which is outside the scope of the request", sy.kind, sy.name, u), nil)
						return
					}
				}
			}
		}
	}
	// last step: an included leaf file disappears - it is deleted on disk while open and then closed
	// (a buffer that was never going to be saved). With no further notification, references and
	// rename asked from the root must not mention it any more: it is in nobody's include tree.
	if nf >= 2 && !dynamic && isOpen[0] && r.Chance(1, 3) {
		victim := -1
		for f := len(w.Names) - 1; f >= 1; f-- {
			inScope := false
			for _, x := range w.Scope(0) {
				if x == f {
					inScope = true
				}
			}
			if inScope && isOpen[f] && len(w.Includes[f]) == 0 {
				victim = f
				break
			}
		}
		if victim > 0 {
			os.Remove(filepath.Join(dir, w.Names[victim]))
			s.Close(docURI(victim))
			s.Drain()
			c.Count("vanished_file_cases", 1)
			scope := w.Scope(0)
			for _, sy := range syms {
				occs := w.occurrences(sy.kind, sy.name, scope)
				inVictim := false
				for _, o := range occs {
					if o.File == victim {
						inVictim = true
					}
				}
				if !inVictim {
					continue
				}
				for _, o := range occs {
					if o.File != 0 || o.Opt || o.Decl {
						continue
					}
					pos := protocol.TextDocumentPositionParams{TextDocument: protocol.TextDocumentIdentifier{URI: docURI(0)},
						Position: protocol.Position{Line: uint32(o.Line), Character: uint32(o.U0 + (o.U1-o.U0)/2)}}
					got, _ := s.Srv.References(ctx, &protocol.ReferenceParams{TextDocumentPositionParams: pos, Context: protocol.ReferenceContext{IncludeDeclaration: true}})
					c.Count("vanished_file_probes", 1)
					gotSet := map[string]bool{}
					for _, loc := range got {
						gf := w.FileOfURI(s, loc.URI)
						if gf == victim {
							fail("spurious-vanished-file("+sy.kind+")", fmt.Sprintf("references for %s %q asked from %s still lists %s %d:%d after that file was deleted on disk and closed", sy.kind, sy.name, w.Names[0], w.Names[victim], loc.Range.Start.Line, loc.Range.Start.Character), map[string]any{"vanished": w.Names[victim]})
							return
						}
						gotSet[fmt.Sprintf("%d@%d:%d-%d", gf, loc.Range.Start.Line, loc.Range.Start.Character, loc.Range.End.Character)] = true
					}
					for _, x := range occs {
						if x.File != victim && !x.Opt && !gotSet[x.key()] {
							fail("missing-after-vanish("+sy.kind+")", fmt.Sprintf("references for %s %q asked from %s misses %s after %s was deleted and closed", sy.kind, sy.name, w.Names[0], x.key(), w.Names[victim]), map[string]any{"vanished": w.Names[victim]})
							return
						}
					}
					newName := map[string]string{"account": "renamed:acct", "commodity": "XYZ", "payee": "Renamed Payee"}[sy.kind]
					we, _ := s.Srv.Rename(ctx, &protocol.RenameParams{TextDocumentPositionParams: pos, NewName: newName})
					if we != nil {
						for u := range we.Changes {
							if w.FileOfURI(s, u) == victim {
								fail("wrong-file", fmt.Sprintf("rename of %s %q edits %s, which was deleted on disk and closed", sy.kind, sy.name, u), map[string]any{"vanished": w.Names[victim]})
								return
							}
						}
					}
					break
				}
			}
		}
	}
	if c.Rep.Evaluations%101 == 0 {
		c.Sample(map[string]any{"case": idx, "files": w.Names, "includes": fmt.Sprint(w.Includes), "workspace_root": w.Root, "symbols": len(syms), "unsaved_edit_in": unsaved})
	}
}

func keysStr(m map[string]bool) []string {
	var ks []string
	for k := range m {
		ks = append(ks, k)
	}
	sort.Strings(ks)
	return ks
}
