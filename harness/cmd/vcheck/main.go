// vcheck: runtime-monitoring harness for hledger-lsp (injected as internal/zzverif).
package main

import (
	"fmt"
	"os"
	"strconv"

	zv "github.com/juev/hledger-lsp/internal/zzverif"
)

func usage() {
	fmt.Fprintln(os.Stderr, "usage: vcheck check <ID> <tier> | shard … | replay <file> | list")
	os.Exit(2)
}

func main() {
	if len(os.Args) < 2 {
		usage()
	}
	switch os.Args[1] {
	case "list":
		for _, id := range zv.AllIDs() {
			fmt.Println(id)
		}
	case "check":
		if len(os.Args) < 4 {
			usage()
		}
		p := zv.Lookup(os.Args[2])
		if p == nil {
			fmt.Printf("INCONCLUSIVE property=%s no such monitor\n", os.Args[2])
			os.Exit(2)
		}
		seed := uint64(1)
		if s := os.Getenv("VERIF_SEED"); s != "" {
			if v, err := strconv.ParseUint(s, 10, 64); err == nil {
				seed = v
			}
		}
		self, _ := os.Executable()
		o := zv.CheckOpts{
			Tier: os.Args[3], Seed: seed,
			Scratch:   envOr("VERIF_SCRATCH", os.TempDir()),
			KnownPath: envOr("VERIF_KNOWN", "/verif/KNOWN_FINDINGS.txt"),
			Evidence:  envOr("VERIF_EVIDENCE", "/verif/evidence/"+p.ID+".json"),
			ReplayDir: envOr("VERIF_REPLAYDIR", "/verif/replay"),
			SelfExe:   self, RaceExe: os.Getenv("VERIF_RACE_EXE"), WireExe: os.Getenv("VERIF_WIRE_EXE"),
			Toolchain: os.Getenv("VERIF_TOOLCHAIN"),
		}
		os.Exit(zv.RunCheck(p, o))
	case "shard":
		// shard ID tier seed shard nshards from dir report known
		a := os.Args[2:]
		if len(a) < 9 {
			usage()
		}
		p := zv.Lookup(a[0])
		if p == nil {
			os.Exit(3)
		}
		seed, _ := strconv.ParseUint(a[2], 10, 64)
		shard, _ := strconv.Atoi(a[3])
		nsh, _ := strconv.Atoi(a[4])
		from, _ := strconv.ParseInt(a[5], 10, 64)
		os.Exit(zv.RunShard(p, a[1], seed, shard, nsh, from, a[6], a[7], a[8]))
	case "replay":
		if len(os.Args) < 3 {
			usage()
		}
		os.Exit(zv.RunReplay(os.Args[2], envOr("VERIF_KNOWN", "/verif/KNOWN_FINDINGS.txt"), envOr("VERIF_SCRATCH", os.TempDir())))
	case "aux":
		os.Exit(zv.RunAux(os.Args[2:]))
	default:
		usage()
	}
}

func envOr(k, d string) string {
	if v := os.Getenv(k); v != "" {
		return v
	}
	return d
}
