package zv

import (
	"fmt"
	"os"
)

// Auxiliary child commands (fresh-process runs for C15, dedicated children for C06, …).
var auxCmds = map[string]func(args []string) int{}

func RegisterAux(name string, f func(args []string) int) { auxCmds[name] = f }

func RunAux(args []string) int {
	if len(args) == 0 {
		fmt.Fprintln(os.Stderr, "aux: missing command")
		return 2
	}
	f := auxCmds[args[0]]
	if f == nil {
		fmt.Fprintln(os.Stderr, "aux: unknown command", args[0])
		return 2
	}
	return f(args[1:])
}
