package zv

import (
	"context"
	"encoding/json"
	"fmt"
	"os"
	"path/filepath"
	"runtime"
	"runtime/debug"
	"strings"
	"sync/atomic"
	"syscall"
	"time"

	"github.com/juev/hledger-lsp/internal/parser"
	"go.lsp.dev/protocol"
)

// C06 Every request is total and time-bounded on arbitrary content.

type c06State struct {
	bad   [][]string
	seeds []string
}

// quick: mutated inputs, shape inputs, scaling families, wire sessions
func c06Counts(tier string) (mut, shapes, scaling, wire int64) {
	if tier == "thorough" {
		return 150000, 4000, int64(len(c06Families)) * 4, 600
	}
	return 2600, 440, int64(len(c06Families)), 24
}

func init() {
	Register(&Prop{
		ID:         "C06",
		Gomaxprocs: 2,
		Rule:       "byte strings up to 64 KiB: (1) journals from G and hand-written corner snippets mutated by 1-6 operators (bit flips, deletions, duplications, truncation, splices of a dictionary of syntax fragments, invalid UTF-8 sequences, control characters, BOM, Unicode blanks and separators, extreme numbers and exponents, malformed dates; plus a fixed list of extreme exponents in every amount position, each spelled with blanks, tabs, no-break spaces, commas, dots, signs and leading zeros inside the exponent), (2) parametric hostile shapes (one long line, 'a|a|a|...' headers, deeply nested account names, huge digit strings, grouped numbers, thousands of tags, brackets, quotes, an opening mark alternating with a word / number / account on one line in posting and header position (40 families), blank lines, tiny transactions, postings, directives with sub-directives, include lines, ...) at sizes up to 64 KiB. Each input: the lexer is run alone (progress oracle: token spans inside the input, left to right, no overlap, gaps only blanks, EOF token at len(input), token count <= 2n+8), then the document is opened in an in-process server and diagnostics plus every feature request at hostile positions (origin, inside, past the end of line and file, huge, inside surrogate pairs; every position for a third of the documents below 300 bytes) must return; a panic, a fatal error, more than 3 GiB resident or 10 s CPU for one request (background analysis included) ends the child and is attributed to the journalled input. CPU time (getrusage, not wall clock): a request may use 250 ms + 10 us per input byte on the thread it runs on (0.9 s at 64 KiB; a linear pass costs 1-30 ms), a notification with the analysis it starts 600 ms + 15 us per byte of the whole process (garbage collection is billed there). (3) scaling oracle: each shape family at 2, 16 and 64 KiB, per-byte CPU cost of every request may grow at most 6-fold from 2 KiB to 64 KiB (quadratic = 32-fold); judged only when the 64 KiB request costs >= 30 ms. (4) wire sessions against the built binary with the input both as didOpen text and as an included file on disk (raw bytes): every request must be answered, the process must stay alive, child CPU per request bounded as above. Non-trivial = inputs that differ from every seed; distinct by input hash.",
		Notes:      []string{"no coverage guidance: the mutation operators and the dictionary are fixed, inputs are a function of (seed, index)", "a request that neither returns nor burns CPU is reported by the generous wall-clock watchdog as inconclusive"},
		Cases: func(tier string) int64 {
			a, b, c, d := c06Counts(tier)
			return a + b + c + d
		},
		MustObserve: []string{"inputs", "lexer_runs", "tokens", "requests", "wire_requests", "scaling_measurements"},
		Setup: func(c *Ctx) {
			st := &c06State{bad: c.Known.BadFeatureSets("C03")}
			r := NewRNG(HashStr("C06seeds"), c.Seed)
			g := NewGen(r, st.bad)
			for i := 0; i < 40; i++ {
				st.seeds = append(st.seeds, g.Journal(r.Range(1, 6)).Render().Text)
			}
			st.seeds = append(st.seeds, c06Snippets...)
			c.State = st
			go c06CPUWatchdog(c)
		},
		RunCase: runC06,
	})
}

var c06Snippets = []string{
	"2024-01-15 * (123) Shop | note  ; trip:rome, kind:food\n    expenses:food  $50.00 @ 0.9 EUR = $150.00  ; posting:tag\n    assets:cash\n",
	"account assets:cash  ; type:A\n    note  the wallet\ncommodity 1,000.00 USD\n    format 1,000.00 USD\nP 2024-01-01 EUR 1.10 USD\nY2024\nD $1,000.00\ninclude other.journal\n",
	"~ monthly  rent\n    expenses:rent  1000 EUR\n    assets:bank\n\n= expenses:food\n    (budget:food)  *-1\n",
	"2024/1/5=2024/1/7 ! Описание | заметка\n    активы:наличные  -1 234,50 \"руб лей\"\n    [виртуальный:счёт]  1 234,50 \"руб лей\"\n    (equity)  = 0\n",
	"apply account business\n2024-02-01 x\n    a  1\n    b\nend apply account\ncomment\nfree text\nend comment\n",
	"2024-03-01 lots\n    assets:stock  10 AAPL {$150.00} [2024-01-01] (lot note) @ $160.00\n    assets:cash  -1e3 USD\n    equity  1E-2 BTC == 5 BTC\n",
	"; top comment\n# hash comment\n* star comment\n\n2024-01-01\n  a  1\n  b\n",
	"alias rent = expenses:rent\ntag project\npayee Shop\ndecimal-mark ,\n",
}

var c06Dict = []string{
	"@", "@@", " @ ", " @@ ", "=", "==", " = ", " == ", ";", "; ", "  ; ", ":", "::", "|", " | ", "(", ")", "[", "]", "{", "}", "\"", "\"\"", "*", "!", "* ", "! ", "#", "~ ", "= ",
	"include ", "include *.journal", "include ../x", "account ", "commodity ", "P ", "Y", "Y2024", "D ", "apply account ", "end apply account", "format ", "alias ", "payee ", "tag ", "comment\n", "end comment\n",
	"\t", "  ", " ", "    ", "\r", "\r\n", "\n", "\n\n", "\n    ", "\n  ", "\n\t",
	"\x00", "\x01", "\x07", "\x1b[31m", "\x7f", "\xff", "\xfe", "\xc3", "\xc3\x28", "\xe2\x82", "\xf0\x9f\x98", "\xf0\x28\x8c\xbc", "\xed\xa0\x80", "\xc0\xaf", "\xef\xbb\xbf", "\xef\xbf\xbd",
	" ", " ", " ", "​", "　", "\u0085", "‮", "𝔘", "😀", "е", "é", "é", "٣", "１２", "€", "$", "£", "₽", "¥",
	"1e9999999", "1E-9999999", "1e+99999999999999999999", "9e99", "1E400", "-1e-400", "99999999999999999999999999999999999999999999", "0.00000000000000000000000000000000000001",
	"1,2,3,4.5.6", "1.2.3", "1,,2", "-+-1", "+-1", "1.", ".5", "-.5", "1e", "1e+", "1E-", "e5", "1 000 000", "1_000", "0x10", "1,000,000,000,000,000,000.00", "١٢٣",
	"2024-13-45", "0000-00-00", "99999999-1-1", "2024/1/1", "1-1", "2024.01.01", "2024-1", "2024-01-", "-2024-01-01", "2024-01-01=", "2024-02-30",
	"date:2024-99-99", "date2:", "tag:", ":value", "a:b:c:d", "a::b", ":a", "a:", "type:", ", ,", "a:b, c:d, e:",
	"assets:cash", "expenses:food", "USD", "EUR", "\"A B\"", "\"", "$-5", "-$5", "$ -5", "5 $", "(a)", "[a]", "(a", "a)", "[a", "a]", "((a))",
}

type c06Family struct {
	Name string
	Make func(n int) string
}

func rep(s string, n int) string {
	if len(s) == 0 {
		return ""
	}
	k := n / len(s)
	if k < 1 {
		k = 1
	}
	return strings.Repeat(s, k)
}

var c06Families = []c06Family{
	{"long-line-letters", func(n int) string { return rep("a", n) }},
	{"long-line-indented", func(n int) string { return "2024-01-01 x\n    " + rep("a", n) + "\n" }},
	{"header-pipes", func(n int) string { return "2024-01-01 " + rep("a|", n) + "\n    a  1\n    b\n" }},
	{"header-long-description", func(n int) string { return "2024-01-01 " + rep("word ", n) + "\n    a  1\n    b\n" }},
	{"deep-account-posting", func(n int) string { return "2024-01-01 x\n    " + rep("a:", n) + "a  1\n    b\n" }},
	{"deep-account-directive", func(n int) string { return "account " + rep("a:", n) + "a\n" }},
	{"wide-accounts", func(n int) string {
		var sb strings.Builder
		sb.WriteString("2024-01-01 x\n")
		for i := 0; sb.Len() < n; i++ {
			fmt.Fprintf(&sb, "    assets:a%d  1\n", i)
		}
		sb.WriteString("    b\n")
		return sb.String()
	}},
	{"many-account-directives", func(n int) string {
		var sb strings.Builder
		for i := 0; sb.Len() < n; i++ {
			fmt.Fprintf(&sb, "account assets:bank:a%d\n", i)
		}
		return sb.String()
	}},
	{"huge-integer", func(n int) string { return "2024-01-01 x\n    a  " + rep("9", n) + " USD\n    b\n" }},
	{"huge-fraction", func(n int) string { return "2024-01-01 x\n    a  0." + rep("3", n) + " USD\n    b\n" }},
	{"grouped-number", func(n int) string { return "2024-01-01 x\n    a  1" + rep(",000", n) + ".00 USD\n    b\n" }},
	{"grouped-number-commodity-directive", func(n int) string { return "commodity 1" + rep(",000", n) + ".00 USD\n" }},
	{"many-amount-signs", func(n int) string { return "2024-01-01 x\n    a  " + rep("-", n) + "1 USD\n    b\n" }},
	{"many-tags", func(n int) string { return "2024-01-01 x  ; " + rep("a:b, ", n) + "\n    a  1\n    b\n" }},
	{"many-tags-posting", func(n int) string { return "2024-01-01 x\n    a  1  ; " + rep("t:v, ", n) + "\n    b\n" }},
	{"tag-colons", func(n int) string { return "2024-01-01 x  ; " + rep(":", n) + "\n    a  1\n    b\n" }},
	{"long-comment", func(n int) string { return "; " + rep("c", n) + "\n" }},
	{"many-comment-lines", func(n int) string { return "2024-01-01 x\n" + rep("    ; c\n", n) + "    a  1\n    b\n" }},
	{"open-parens", func(n int) string { return "2024-01-01 x\n    " + rep("(", n) + "\n" }},
	{"open-parens-virtual", func(n int) string { return "2024-01-01 x\n    " + rep("(", n) + "a:b)  1 USD\n    c\n" }},
	{"open-brackets-virtual", func(n int) string { return "2024-01-01 x\n    " + rep("[", n) + "a:b]  1 USD\n    c\n" }},
	{"open-brackets-header", func(n int) string { return "2024-01-01 " + rep("(", n) + "\n" }},
	{"quotes", func(n int) string { return "2024-01-01 x\n    a  1 " + rep("\"", n) + "\n" }},
	{"unterminated-quote", func(n int) string { return "2024-01-01 x\n    a  1 \"" + rep("q", n) + "\n    b\n" }},
	{"blank-lines", func(n int) string { return rep("\n", n) }},
	{"blank-lines-with-spaces", func(n int) string { return rep("   \n", n) }},
	{"crlf-lines", func(n int) string { return rep("\r\n", n) }},
	{"lone-cr", func(n int) string { return rep("a\r", n) }},
	{"tiny-transactions", func(n int) string { return rep("2024-01-01 x\n a  1\n b\n", n) }},
	{"unbalanced-transactions", func(n int) string { return rep("2024-01-01 x\n a  1 A\n b  2 B\n", n) }},
	{"many-postings", func(n int) string { return "2024-01-01 x\n" + rep("    a:b  1 USD\n", n) + "    c\n" }},
	{"many-commodities", func(n int) string {
		var sb strings.Builder
		sb.WriteString("2024-01-01 x\n")
		for i := 0; sb.Len() < n; i++ {
			fmt.Fprintf(&sb, "    a  1 C%c%c%c\n", 'A'+i%26, 'A'+(i/26)%26, 'A'+(i/676)%26)
		}
		return sb.String()
	}},
	{"many-payees", func(n int) string {
		var sb strings.Builder
		for i := 0; sb.Len() < n; i++ {
			fmt.Fprintf(&sb, "2024-01-01 payee%d\n a  1\n b\n", i)
		}
		return sb.String()
	}},
	{"commodity-directives-with-format", func(n int) string { return rep("commodity USD\n    format 1,000.00 USD\n", n) }},
	{"account-directives-with-subdirectives", func(n int) string { return rep("account a:b\n    note x\n    ; c\n", n) }},
	{"include-lines", func(n int) string { return rep("include nowhere.journal\n", n) }},
	{"price-directives", func(n int) string { return rep("P 2024-01-01 EUR 1.10 USD\n", n) }},
	{"dates-only", func(n int) string { return rep("2024-01-01\n", n) }},
	{"price-directives-one-line", func(n int) string { return rep("P 1994-06-25 XA05-16 GBP 21", n) + "\n" }},
	{"postings-one-line", func(n int) string { return "2024-01-01 x\n    a:b  1 USD" + rep("  a:b  1 USD", n) + "\n" }},
	{"dates-one-line", func(n int) string { return rep("2024-01-01 ", n) + "\n" }},
	{"numbers-one-line", func(n int) string { return "2024-01-01 x\n    a  " + rep("1 ", n) + "\n" }},
	{"words-one-line-directive", func(n int) string { return "account " + rep("ab cd ", n) + "\n" }},
	{"costs", func(n int) string { return "2024-01-01 x\n" + rep("    a  1 A @ 2 B\n", n) + "    c\n" }},
	{"assertions", func(n int) string { return "2024-01-01 x\n" + rep("    a  1 A = 5 A\n", n) }},
	{"at-signs", func(n int) string { return "2024-01-01 x\n    a  1 A " + rep("@ ", n) + "\n" }},
	{"equals-signs", func(n int) string { return "2024-01-01 x\n    a  " + rep("= ", n) + "\n" }},
	{"nul-bytes", func(n int) string { return "2024-01-01 x\n    a  1\n" + rep("\x00", n) + "\n    b\n" }},
	{"invalid-utf8", func(n int) string { return "2024-01-01 " + rep("\xff\xfe", n) + "\n    a\xc3  1 \xe2\x82\n" }},
	{"astral-plane", func(n int) string { return "2024-01-01 " + rep("😀", n) + "\n    😀:😀  1 😀\n" }},
	{"non-ascii-accounts", func(n int) string { return "2024-01-01 x\n" + rep("    активы:наличные  1 руб\n", n) }},
	{"exponents", func(n int) string { return "2024-01-01 x\n" + rep("    a  1e3 A\n", n) }},
	{"year-directives", func(n int) string { return rep("Y2024\n", n) }},
	{"semicolons", func(n int) string { return rep(";", n) }},
	{"tabs", func(n int) string { return "2024-01-01 x\n" + rep("\t", n) + "a  1\n" }},
	{"status-marks", func(n int) string { return "2024-01-01 " + rep("* ", n) + "\n" }},
	{"codes", func(n int) string { return "2024-01-01 " + rep("(c) ", n) + "\n" }},
}

var c06Extremes = []string{
	"2024-01-01 x\n    a  1E9999999 USD\n    b\n",
	"2024-01-01 x\n    a  1E999999999999 USD\n    b\n",
	"2024-01-01 x\n    a  1e-9999999 USD\n    b  1 USD\n",
	"2024-01-01 x\n    a  1 USD @ 1E5000000 EUR\n    b\n",
	"2024-01-01 x\n    a  1 USD = 1e8000000 USD\n",
	"commodity 1E9999999 USD\n",
	"P 2024-01-01 EUR 1E9999999 USD\n",
	"D 1E9999999 USD\n",
	"2024-01-01 x\n    a  1e2147483647 A\n    b\n",
	"2024-01-01 x\n    a  1e-2147483648 A\n    b  1e2147483647 A\n",
	"2024-01-01 x\n    a  9e9223372036854775807 A\n    b\n",
	"99999999999-01-01 x\n    a  1\n",
	"2024-01-01 x\n    a  1 A\n    a  1e300000 A\n    a  -1e300000 A\n    b\n",
}

// two kinds of token alternating on one long line: look-ahead that is remembered per kind must
// stay remembered when the kinds interleave (an opening mark followed by a word, again and again,
// with the closing mark / colon far to the right or missing)
func init() {
	xn := map[string]string{"(": "paren", "[": "bracket", "\"": "quote", "{": "brace"}
	yn := map[string]string{"A": "word", "1": "digit", "a:b": "account", " A": "blank-word", "A ": "word-blank"}
	for _, x := range []string{"(", "[", "\"", "{"} {
		for _, y := range []string{"A", "1", "a:b", " A", "A "} {
			x, y := x, y
			c06Families = append(c06Families,
				c06Family{"alt-posting-" + xn[x] + "-" + yn[y], func(n int) string { return "2024-01-01 x\n    " + rep(x+y, n) + ":b  1 USD\n    c\n" }},
				c06Family{"alt-header-" + xn[x] + "-" + yn[y], func(n int) string { return "2024-01-01 " + rep(x+y, n) + "\n    a  1\n    b\n" }})
		}
	}
}

// exponents written with digit group marks, signs and leading zeros: what the lexer accepts as
// one number token must be bounded as one number, however it is spelled
func init() {
	spellings := []string{"2 55555555", "9 999 999", "25 5 5 5 5 5 5 5", "2,55555555", "2.55555555", "+2 55555555", "-2 55555555", "0002 55555555", "2 5 5", "255 ", "2\t55555555", "2\u00a055555555", "16 000000"}
	templates := []string{
		"2024-01-01 x\n    a  1E%s USD\n    b\n",
		"2024-01-01 x\n    a  1e%s USD\n    b  1 USD\n",
		"2024-01-01 x\n    a  USD 1E%s\n    b\n",
		"2024-01-01 x\n    a  1 USD @ 1E%s EUR\n    b\n",
		"2024-01-01 x\n    a  1 USD @@ 1E%s EUR\n    b\n",
		"2024-01-01 x\n    a  1 USD = 1E%s USD\n    b\n",
		"commodity 1E%s USD\n2024-01-01 x\n    a  1 USD\n    b\n",
		"P 2024-01-01 EUR 1E%s USD\n",
		"D 1E%s USD\n2024-01-01 x\n    a  1 USD\n    b\n",
		"2024-01-01 x\n    a  1 A\n    a  1E%s A\n    a  -1E%s A\n    b\n",
	}
	for _, t := range templates {
		for _, sp := range spellings {
			c06Extremes = append(c06Extremes, strings.ReplaceAll(t, "%s", sp))
		}
	}
}

func c06Mutate(r *RNG, st *c06State) (string, string) {
	s := []byte(Pick(r, st.seeds))
	nops := r.Range(1, 6)
	var ops []string
	for k := 0; k < nops; k++ {
		if len(s) == 0 {
			s = []byte(Pick(r, c06Dict))
		}
		switch op := r.Intn(12); op {
		case 0:
			i := r.Intn(len(s))
			s[i] ^= 1 << uint(r.Intn(8))
			ops = append(ops, "bitflip")
		case 1:
			i := r.Intn(len(s))
			j := i + r.Intn(min(len(s)-i, 40)+1)
			s = append(s[:i:i], s[j:]...)
			ops = append(ops, "delete")
		case 2:
			i := r.Intn(len(s))
			j := i + r.Intn(min(len(s)-i, 60)+1)
			cnt := r.Range(1, 4)
			var ins []byte
			for q := 0; q < cnt; q++ {
				ins = append(ins, s[i:j]...)
			}
			s = append(s[:j:j], append(ins, s[j:]...)...)
			ops = append(ops, "duplicate")
		case 3:
			s = s[:r.Intn(len(s)+1)]
			ops = append(ops, "truncate")
		case 4, 5, 6, 7:
			i := r.Intn(len(s) + 1)
			d := Pick(r, c06Dict)
			s = append(s[:i:i], append([]byte(d), s[i:]...)...)
			ops = append(ops, "splice")
		case 8:
			i := r.Intn(len(s) + 1)
			n := r.Range(1, 6)
			var ins []byte
			for q := 0; q < n; q++ {
				ins = append(ins, byte(r.Intn(256)))
			}
			s = append(s[:i:i], append(ins, s[i:]...)...)
			ops = append(ops, "random-bytes")
		case 9:
			// replace a line terminator
			for i := range s {
				if s[i] == '\n' && r.Chance(1, 3) {
					s[i] = Pick(r, []byte{'\r', ' ', '\t', 0, ';'})
				}
			}
			ops = append(ops, "join-lines")
		case 10:
			// splice another seed
			o := []byte(Pick(r, st.seeds))
			i := r.Intn(len(s) + 1)
			a := r.Intn(len(o) + 1)
			b := a + r.Intn(len(o)-a+1)
			s = append(s[:i:i], append(o[a:b:b], s[i:]...)...)
			ops = append(ops, "cross")
		case 11:
			i := r.Intn(len(s) + 1)
			d := Pick(r, c06Extremes)
			s = append(s[:i:i], append([]byte(d), s[i:]...)...)
			ops = append(ops, "extreme")
		}
	}
	if r.Chance(1, 12) {
		// grow towards the size limit by repetition
		for len(s) > 0 && len(s) < 32<<10 {
			s = append(s, s...)
		}
		ops = append(ops, "repeat")
	}
	if len(s) > 64<<10 {
		s = s[:64<<10]
	}
	return string(s), strings.Join(ops, "+")
}

// ---- lexer progress oracle

func c06Lex(c *Ctx, text, class string) bool {
	lx := parser.NewLexer(text)
	n := len(text)
	prevEnd := 0
	limit := 2*n + 8
	c.Count("lexer_runs", 1)
	wit := func() map[string]any { return map[string]any{"input": text, "input_class": class} }
	for k := 0; ; k++ {
		if k > limit {
			c.Violate(Violation{Kind: "lexer-no-progress", Sig: "C06:lexer-no-progress", Pool: "clean", Detail: fmt.Sprintf("more than %d tokens for %d bytes of input", limit, n), Witness: wit()})
			return false
		}
		tok := lx.Next()
		c.Count("tokens", 1)
		p0, p1 := tok.Pos.Offset, tok.End.Offset
		bad := ""
		switch {
		case p0 < 0 || p1 > n || p0 > n:
			bad = "outside"
		case p1 < p0:
			bad = "reversed"
		case p0 < prevEnd:
			bad = "overlap"
		}
		if bad == "" {
			for _, b := range []byte(text[prevEnd:p0]) {
				if b != ' ' && b != '\t' && b != '\r' {
					bad = "gap"
					break
				}
			}
		}
		if bad == "" && tok.Type == parser.TokenEOF && p0 != n {
			bad = "early-eof"
		}
		if bad != "" {
			c.Violate(Violation{Kind: "lexer-" + bad, Sig: "C06:lexer-" + bad + "(" + tok.Type.String() + ")", Pool: "clean",
				Detail:  fmt.Sprintf("token %d %s %q spans bytes %d..%d, the previous token ended at %d, input length %d, skipped bytes %q", k, tok.Type, oneLine(tok.Value, 40), p0, p1, prevEnd, n, oneLine(text[min(prevEnd, n):max(min(p0, n), min(prevEnd, n))], 40)),
				Witness: wit()})
			return false
		}
		prevEnd = p1
		if tok.Type == parser.TokenEOF {
			return true
		}
	}
}

// ---- CPU accounting

func cpuNow() time.Duration {
	var ru syscall.Rusage
	syscall.Getrusage(syscall.RUSAGE_SELF, &ru)
	return time.Duration(ru.Utime.Nano() + ru.Stime.Nano())
}

var c06ReqStart atomic.Int64 // CPU time at the start of the running request (0 = none)
var c06ReqName atomic.Value

const c06CPUCap = 10 * time.Second

// c06CPUWatchdog ends the child when one request has burnt more than the cap; the parent attributes it.
func c06CPUWatchdog(c *Ctx) {
	for {
		time.Sleep(100 * time.Millisecond)
		st := c06ReqStart.Load()
		if st == 0 {
			continue
		}
		if cpuNow()-time.Duration(st) > c06CPUCap {
			buf := make([]byte, 1<<20)
			n := runtime.Stack(buf, true)
			fmt.Fprintf(os.Stderr, "VERIF-CPU-CAP case=%d request=%v: more than %v of CPU time\n%s\n", c.curCase, c06ReqName.Load(), c06CPUCap, buf[:n])
			os.Exit(96)
		}
	}
}

// c06Budget: CPU time of the thread a synchronous request runs on.
func c06Budget(n int) time.Duration {
	return 250*time.Millisecond + time.Duration(n)*10*time.Microsecond
}

// c06BudgetBackground: CPU time of the whole process while a notification and the analysis it
// starts are worked off (garbage collection and harness goroutines are billed too, hence the base).
func c06BudgetBackground(n int) time.Duration {
	return 600*time.Millisecond + time.Duration(n)*15*time.Microsecond
}

// c06Timed runs fn as request name on its own goroutine and returns its CPU cost. A request that is
// blocked (goroutine state, not timing) while no server goroutine can make progress is a deadlock:
// the child prints the dump and exits, the parent attributes it to the journalled input.
func c06Timed(name string, fn func()) time.Duration {
	d, _ := c06Timed2(name, fn)
	return d
}

func threadCPU() time.Duration {
	var ru syscall.Rusage
	syscall.Getrusage(1 /* RUSAGE_THREAD */, &ru)
	return time.Duration(ru.Utime.Nano() + ru.Stime.Nano())
}

// c06Timed2 returns the CPU time of the whole process during the call (which includes background
// goroutines and the garbage collector) and the CPU time of the thread the call itself ran on.
func c06Timed2(name string, fn func()) (process, thread time.Duration) {
	t0 := cpuNow()
	c06ReqName.Store(name)
	c06ReqStart.Store(int64(t0) + 1)
	done := make(chan struct{})
	var carried *carriedPanic
	var own time.Duration
	go sessionCall(func() {
		runtime.LockOSThread()
		defer runtime.UnlockOSThread()
		th0 := threadCPU()
		defer func() {
			own = threadCPU() - th0
			if r := recover(); r != nil {
				carried = &carriedPanic{Value: r, Stack: string(debug.Stack())}
			}
		}()
		fn()
	}, done)
	tick := time.NewTimer(250 * time.Millisecond)
	defer tick.Stop()
	blockedSeen := 0
	for {
		select {
		case <-done:
			c06ReqStart.Store(0)
			if carried != nil {
				panic(*carried)
			}
			return cpuNow() - t0, own
		case <-tick.C:
			st := sessionCallState()
			if i := strings.IndexByte(st, '|'); i > 0 && isBlockedState(st[:i]) && ServerGoroutines().Active == 0 {
				blockedSeen++
				if blockedSeen >= 3 {
					fmt.Fprintf(os.Stderr, "VERIF-DEADLOCK case=%d request=%s: the request is blocked and no server goroutine can run\n%s\n\n%s\n", c06Case.Load(), name, st[i+1:], allStacks())
					os.Exit(95)
				}
			} else {
				blockedSeen = 0
			}
			tick.Reset(250 * time.Millisecond)
		}
	}
}

var c06Case atomic.Int64

type c06Req struct {
	Name string
	Do   func()
}

func c06Positions(r *RNG, text string) []protocol.Position {
	starts, ends := refLines(text)
	ps := []protocol.Position{{Line: 0, Character: 0}, {Line: uint32(len(starts) + 3), Character: 7}, {Line: 0, Character: 1 << 20}, {Line: 1 << 30, Character: 1 << 30}}
	if len(starts) > 0 {
		last := len(starts) - 1
		ps = append(ps, protocol.Position{Line: uint32(last), Character: uint32(u16len(text[starts[last]:ends[last]]))})
		for k := 0; k < 4; k++ {
			l := r.Intn(len(starts))
			w := u16len(text[starts[l]:ends[l]])
			ps = append(ps, protocol.Position{Line: uint32(l), Character: uint32(r.Intn(w + 3))})
		}
	}
	return ps
}

// c06Requests lists every feature request for the document at position p (cheap ones at every position).
func c06Requests(s *Session, uri protocol.DocumentURI, p protocol.Position, whole bool) []c06Req {
	ctx := context.Background()
	id := protocol.TextDocumentIdentifier{URI: uri}
	tp := protocol.TextDocumentPositionParams{TextDocument: id, Position: p}
	at := fmt.Sprintf("@%d:%d", p.Line, p.Character)
	reqs := []c06Req{
		{"completion" + at, func() { s.Srv.Completion(ctx, &protocol.CompletionParams{TextDocumentPositionParams: tp}) }},
		{"completion(trigger :)" + at, func() {
			s.Srv.Completion(ctx, &protocol.CompletionParams{TextDocumentPositionParams: tp, Context: &protocol.CompletionContext{TriggerKind: protocol.CompletionTriggerKindTriggerCharacter, TriggerCharacter: ":"}})
		}},
		{"completion(trigger @)" + at, func() {
			s.Srv.Completion(ctx, &protocol.CompletionParams{TextDocumentPositionParams: tp, Context: &protocol.CompletionContext{TriggerKind: protocol.CompletionTriggerKindTriggerCharacter, TriggerCharacter: "@"}})
		}},
		{"hover" + at, func() { s.Srv.Hover(ctx, &protocol.HoverParams{TextDocumentPositionParams: tp}) }},
		{"definition" + at, func() { s.Srv.Definition(ctx, &protocol.DefinitionParams{TextDocumentPositionParams: tp}) }},
		{"references" + at, func() {
			s.Srv.References(ctx, &protocol.ReferenceParams{TextDocumentPositionParams: tp, Context: protocol.ReferenceContext{IncludeDeclaration: true}})
		}},
		{"prepareRename" + at, func() { s.Srv.PrepareRename(ctx, &protocol.PrepareRenameParams{TextDocumentPositionParams: tp}) }},
		{"rename" + at, func() {
			s.Srv.Rename(ctx, &protocol.RenameParams{TextDocumentPositionParams: tp, NewName: "renamed:x"})
		}},
		{"inlineCompletion" + at, func() {
			pj, _ := json.Marshal(map[string]any{"textDocument": id, "position": p, "context": map[string]any{"triggerKind": 1}})
			s.Srv.InlineCompletion(ctx, pj)
		}},
		{"codeAction" + at, func() {
			s.Srv.CodeAction(ctx, &protocol.CodeActionParams{TextDocument: id, Range: protocol.Range{Start: p, End: protocol.Position{Line: p.Line + 2, Character: 0}}})
		}},
		{"semanticTokens/range" + at, func() {
			s.Srv.SemanticTokensRange(ctx, &protocol.SemanticTokensRangeParams{TextDocument: id, Range: protocol.Range{Start: p, End: protocol.Position{Line: p.Line + 5, Character: 3}}})
		}},
	}
	if whole {
		reqs = append(reqs,
			c06Req{"documentSymbol", func() { s.Srv.DocumentSymbol(ctx, &protocol.DocumentSymbolParams{TextDocument: id}) }},
			c06Req{"foldingRange", func() {
				s.Srv.FoldingRanges(ctx, &protocol.FoldingRangeParams{TextDocumentPositionParams: protocol.TextDocumentPositionParams{TextDocument: id}})
			}},
			c06Req{"documentLink", func() { s.Srv.DocumentLink(ctx, &protocol.DocumentLinkParams{TextDocument: id}) }},
			c06Req{"semanticTokens/full", func() { s.Srv.SemanticTokensFull(ctx, &protocol.SemanticTokensParams{TextDocument: id}) }},
			c06Req{"semanticTokens/full/delta", func() {
				s.Srv.SemanticTokensFullDelta(ctx, &protocol.SemanticTokensDeltaParams{TextDocument: id, PreviousResultID: "1"})
			}},
			c06Req{"formatting", func() { s.Srv.Format(ctx, &protocol.DocumentFormattingParams{TextDocument: id}) }},
			c06Req{"workspaceSymbol", func() { s.Srv.WorkspaceSymbol(ctx, &protocol.WorkspaceSymbolParams{Query: "a"}) }},
		)
	}
	return reqs
}

// c06Open opens text and waits (sleeping, not spinning) for its diagnostics; returns the CPU cost.
func c06Open(s *Session, uri protocol.DocumentURI, text string) (time.Duration, bool) {
	have := s.Stub.PubCount(uri)
	ok := false
	d := c06Timed("didOpen+diagnostics", func() {
		s.Open(uri, text)
		for spin := 0; spin < 600000; spin++ {
			if s.Stub.PubCount(uri) > have {
				ok = true
				return
			}
			time.Sleep(150 * time.Microsecond)
			if spin%400 == 399 {
				if g := ServerGoroutines(); g.Active == 0 && s.Stub.PubCount(uri) == have {
					// nothing runs any more and nothing was published
					if g2 := ServerGoroutines(); g2.Active == 0 && s.Stub.PubCount(uri) == have {
						return
					}
				}
			}
		}
	})
	return d, ok
}

// c06Settle waits (sleeping) until no server goroutine runs any more; the wait is CPU-accounted like a
// request, so background work that never ends runs into the CPU cap and is attributed to the input.
func c06Settle(name string) time.Duration {
	return c06Timed(name, func() {
		// back off: every look at the goroutines costs CPU that is accounted to the request
		wait := 300 * time.Microsecond
		for {
			if g := ServerGoroutines(); g.Active == 0 {
				return
			}
			time.Sleep(wait)
			if wait < 2*time.Millisecond {
				wait += wait / 2
			}
		}
	})
}

func c06Battery(c *Ctx, r *RNG, dir, text, class string) bool {
	s := NewSession(dir, SessOpt{})
	uri := s.URI("c06.journal")
	n := len(text)
	budget := c06Budget(n)
	wit := func(extra map[string]any) map[string]any {
		m := map[string]any{"input": text, "input_class": class, "input_bytes": n}
		for k, v := range extra {
			m[k] = v
		}
		return m
	}
	bgBudget := c06BudgetBackground(n)
	slowOf := func(name string, d, budget time.Duration) bool {
		if d <= budget {
			return false
		}
		base := name
		if i := strings.IndexByte(base, '@'); i > 0 {
			base = base[:i]
		}
		c.Violate(Violation{Kind: "slow(" + base + ")", Sig: "C06:slow(" + base + ")", Pool: "clean",
			Detail: fmt.Sprintf("%s on %d bytes (%s) took %v of CPU time, budget %v", name, n, class, d.Round(time.Millisecond), budget), Witness: wit(map[string]any{"request": name, "cpu_ms": d.Milliseconds()})})
		return true
	}
	// notifications with background analysis: CPU of the whole process; requests: CPU of their thread
	slow := func(name string, d time.Duration) bool { return slowOf(name, d, bgBudget) }
	d, ok := c06Open(s, uri, text)
	c.Count("requests", 1)
	if !ok {
		c.Count("opens_without_publish", 1)
	}
	if slow("didOpen+diagnostics", d) {
		return false
	}
	positions := c06Positions(r, text)
	if n < 300 && r.Chance(1, 3) {
		// small documents: every position of every line, one unit past each end included
		starts, ends := refLines(text)
		for l := range starts {
			w := u16len(text[starts[l]:ends[l]])
			for ch := 0; ch <= w+1; ch++ {
				positions = append(positions, protocol.Position{Line: uint32(l), Character: uint32(ch)})
			}
		}
		c.Count("documents_swept_at_every_position", 1)
	}
	first := true
	for _, p := range positions {
		for _, rq := range c06Requests(s, uri, p, first) {
			_, own := c06Timed2(rq.Name, rq.Do)
			c.Count("requests", 1)
			if slowOf(rq.Name, own, budget) {
				return false
			}
			if own > budget/4 {
				// evidence: how close the costliest requests come to the budget
				c.Count("requests_above_a_quarter_of_the_budget", 1)
				if c.Rep.Counters["requests_above_a_quarter_of_the_budget"] <= 3 {
					c.Sample(map[string]any{"costly_request": rq.Name, "thread_cpu_ms": own.Milliseconds(), "budget_ms": budget.Milliseconds(), "input_bytes": n, "input_class": class, "head": oneLine(text, 100)})
				}
			}
		}
		first = false
	}
	// an incremental change at a hostile range, a save and a close must be survived as well
	ps := c06Positions(r, text)
	a, b := ps[r.Intn(len(ps))], ps[r.Intn(len(ps))]
	d = c06Timed("didChange", func() {
		s.Change(uri, []protocol.TextDocumentContentChangeEvent{{Range: protocol.Range{Start: a, End: b}, Text: Pick(r, c06Dict)}})
		s.Save(uri)
	})
	d += c06Settle("didChange+didSave (background analysis)")
	c.Count("requests", 2)
	if slow("didChange+didSave", d) {
		return false
	}
	s.Close(uri)
	if slow("didClose", c06Settle("didClose (background work)")) {
		return false
	}
	return true
}

func runC06(c *Ctx, idx int64) {
	st := c.State.(*c06State)
	c06Case.Store(idx)
	nMut, nShape, nScale, _ := c06Counts(c.Tier)
	r := c.RNG(idx, 0)
	dir := filepath.Join(c.Dir, fmt.Sprintf("w%d", idx))
	os.MkdirAll(dir, 0o755)
	defer os.RemoveAll(dir)
	switch {
	case idx < nMut:
		text, ops := c06Mutate(r, st)
		c.Count("inputs", 1)
		c.Nontrivial(HashStr(text))
		if !c06Lex(c, text, "mutated:"+ops) {
			return
		}
		c06Battery(c, r, dir, text, "mutated:"+ops)
		if idx%211 == 0 {
			c.Sample(map[string]any{"case": idx, "class": "mutated:" + ops, "bytes": len(text), "head": oneLine(text, 120)})
		}
	case idx < nMut+nShape:
		k := idx - nMut
		var text, class string
		if int(k) < len(c06Extremes) {
			text, class = c06Extremes[k], fmt.Sprintf("extreme:%d", k)
		} else {
			f := c06Families[int(k)%len(c06Families)]
			size := []int{64, 700, 4 << 10, 20 << 10, 64<<10 - 64}[r.Intn(5)]
			text, class = f.Make(size), fmt.Sprintf("shape:%s:%d", f.Name, size)
			if r.Chance(1, 3) {
				// combined with a journal from G in front
				text = Pick(r, st.seeds) + "\n" + text
				class += "+journal"
			}
			if len(text) > 64<<10 {
				text = text[:64<<10]
			}
		}
		c.Count("inputs", 1)
		c.Nontrivial(HashStr(text))
		if !c06Lex(c, text, class) {
			return
		}
		c06Battery(c, r, dir, text, class)
	case idx < nMut+nShape+nScale:
		c06Scaling(c, r, dir, c06Families[int(idx-nMut-nShape)%len(c06Families)])
	default:
		c06Wire(c, st, r, dir, idx)
	}
}

// c06Scaling measures every whole-document request on one family at three sizes.
func c06Scaling(c *Ctx, r *RNG, dir string, f c06Family) {
	sizes := []int{2 << 10, 16 << 10, 64<<10 - 64}
	cost := map[string][]time.Duration{}
	var names []string
	for si, size := range sizes {
		text := f.Make(size)
		if len(text) > 64<<10 {
			text = text[:64<<10]
		}
		s := NewSession(filepath.Join(dir, fmt.Sprint(si)), SessOpt{})
		uri := s.URI("c06.journal")
		best := map[string]time.Duration{}
		for rep := 0; rep < 3; rep++ {
			d, _ := c06Open(s, uri, text)
			d += c06Settle("didOpen (background analysis)")
			if v, ok := best["didOpen+diagnostics"]; !ok || d < v {
				best["didOpen+diagnostics"] = d
			}
			starts, ends := refLines(text)
			// the cursor stands at the end of the longest line
			p := protocol.Position{}
			longest := -1
			for l := range starts {
				if longest < 0 || ends[l]-starts[l] > ends[longest]-starts[longest] {
					longest = l
				}
			}
			if longest >= 0 {
				p = protocol.Position{Line: uint32(longest), Character: uint32(u16len(text[starts[longest]:ends[longest]]))}
			}
			reqs := c06Requests(s, uri, p, true)
			// and once on a name: the first word of the first indented line
			for l := range starts {
				lt := text[starts[l]:ends[l]]
				if ind := len(lt) - len(strings.TrimLeft(lt, " \t")); ind > 0 && ind < len(lt) {
					for _, rq := range c06Requests(s, uri, protocol.Position{Line: uint32(l), Character: uint32(ind + 1)}, false) {
						rq.Name = "on-name:" + rq.Name
						reqs = append(reqs, rq)
					}
					break
				}
			}
			for _, rq := range reqs {
				name := rq.Name
				if i := strings.IndexByte(name, '@'); i > 0 {
					name = name[:i]
				}
				_, d := c06Timed2(rq.Name, rq.Do)
				if v, ok := best[name]; !ok || d < v {
					best[name] = d
				}
				c.Count("scaling_measurements", 1)
			}
			s.Close(uri)
			c06Settle("didClose (background work)")
		}
		for k, v := range best {
			if si == 0 {
				names = append(names, k)
			}
			cost[k] = append(cost[k], v)
		}
	}
	c.Nontrivial(HashStr("scaling:" + f.Name))
	for _, k := range names {
		cs := cost[k]
		if len(cs) != 3 {
			continue
		}
		small, big := cs[0], cs[2]
		if big < 30*time.Millisecond {
			continue
		}
		if small < 50*time.Microsecond {
			small = 50 * time.Microsecond
		}
		growth := (float64(big) / float64(sizes[2])) / (float64(small) / float64(sizes[0]))
		c.Count("scaling_judged", 1)
		if growth > 6 {
			c.Violate(Violation{Kind: "superlinear(" + k + ")", Sig: "C06:superlinear(" + k + "," + f.Name + ")", Pool: "clean",
				Detail:  fmt.Sprintf("%s on shape %s: %v at 2 KiB, %v at 16 KiB, %v at 64 KiB of CPU time: the cost per byte grows %.0f-fold", k, f.Name, cs[0].Round(10*time.Microsecond), cs[1].Round(10*time.Microsecond), cs[2].Round(10*time.Microsecond), growth),
				Witness: map[string]any{"family": f.Name, "sample_2KiB": oneLine(f.Make(2<<10), 200), "request": k, "cpu_us": []int64{cs[0].Microseconds(), cs[1].Microseconds(), cs[2].Microseconds()}}})
		}
	}
	c.Sample(map[string]any{"scaling_family": f.Name, "didOpen+diagnostics_us": []int64{cost["didOpen+diagnostics"][0].Microseconds(), cost["didOpen+diagnostics"][1].Microseconds(), cost["didOpen+diagnostics"][2].Microseconds()}})
}

// c06Wire drives the built binary: the input as didOpen text and as an included file on disk.
func c06Wire(c *Ctx, st *c06State, r *RNG, dir string, idx int64) {
	exe := os.Getenv("VERIF_WIRE_EXE")
	if exe == "" {
		c.Inconclusive("wire binary not built")
		return
	}
	var text, class string
	switch r.Intn(3) {
	case 0:
		f := c06Families[r.Intn(len(c06Families))]
		size := []int{700, 8 << 10, 64<<10 - 64}[r.Intn(3)]
		text, class = f.Make(size), fmt.Sprintf("shape:%s:%d", f.Name, size)
	default:
		var ops string
		text, ops = c06Mutate(r, st)
		class = "mutated:" + ops
	}
	if len(text) > 64<<10 {
		text = text[:64<<10]
	}
	c.Count("inputs", 1)
	c.Nontrivial(HashStr("wire" + text))
	os.WriteFile(filepath.Join(dir, "evil.journal"), []byte(text), 0o644)
	mainText := "include evil.journal\n\n2024-01-01 x\n    a  1\n    b\n"
	os.WriteFile(filepath.Join(dir, "main.journal"), []byte(mainText), 0o644)
	w, err := StartWire(exe, dir, WireEnv(dir))
	if err != nil {
		c.Inconclusive("cannot start wire binary: " + err.Error())
		return
	}
	defer w.Close()
	root := ""
	if r.Bool() {
		root = dir
	}
	if _, err := w.Init(root, nil, false); err != nil {
		c.Inconclusive("wire initialize failed: " + err.Error())
		return
	}
	budget := c06Budget(len(text)) + 100*time.Millisecond
	wit := map[string]any{"input": text, "input_class": class, "workspace_root": root != ""}
	// raw JSON string: invalid UTF-8 is sent as it is (the decoder has to cope)
	rawJSON := func(s string) string {
		var sb strings.Builder
		sb.WriteByte('"')
		for i := 0; i < len(s); i++ {
			b := s[i]
			switch {
			case b == '"' || b == '\\':
				sb.WriteByte('\\')
				sb.WriteByte(b)
			case b < 0x20:
				fmt.Fprintf(&sb, "\\u%04x", b)
			default:
				sb.WriteByte(b)
			}
		}
		sb.WriteByte('"')
		return sb.String()
	}
	evil := "file://" + filepath.Join(dir, "evil.journal")
	mainURI := "file://" + filepath.Join(dir, "main.journal")
	w.NotifyRaw("textDocument/didOpen", fmt.Sprintf(`{"textDocument":{"uri":%q,"languageId":"hledger","version":1,"text":%s}}`, mainURI, rawJSON(mainText)))
	w.NotifyRaw("textDocument/didOpen", fmt.Sprintf(`{"textDocument":{"uri":%q,"languageId":"hledger","version":1,"text":%s}}`, evil, rawJSON(text)))
	ps := c06Positions(r, text)
	call := func(method, params string) bool {
		cpu0 := w.CPUSeconds()
		_, err := w.CallRaw(method, params, 60*time.Second)
		c.Count("wire_requests", 1)
		cpu := time.Duration((w.CPUSeconds() - cpu0) * float64(time.Second))
		if !w.Alive() {
			c.Violate(Violation{Kind: "wire-crash", Sig: "C06:wire-crash|" + topRepoFrame(w.Stderr.String()), Pool: "clean",
				Detail: fmt.Sprintf("the server process ended during %s (%s, %d bytes)", method, class, len(text)), Witness: map[string]any{"input": text, "input_class": class, "request": method, "params": params, "stderr": lastLines(w.Stderr.String(), 40)}})
			return false
		}
		if err == ErrWireTimeout {
			if cpu > 30*time.Second {
				c.Violate(Violation{Kind: "wire-hang", Sig: "C06:wire-hang(" + method + ")", Pool: "clean", Detail: fmt.Sprintf("%s unanswered after %v of CPU time (%s, %d bytes)", method, cpu, class, len(text)), Witness: wit})
				return false
			}
			c.Inconclusive(fmt.Sprintf("%s unanswered within the wall-clock limit, %v CPU used", method, cpu))
			return false
		}
		if cpu > budget {
			c.Violate(Violation{Kind: "slow(wire " + method + ")", Sig: "C06:slow(wire " + method + ")", Pool: "clean", Detail: fmt.Sprintf("%s on %d bytes (%s) took %v of CPU time in the server process, budget %v", method, len(text), class, cpu, budget), Witness: wit})
			return false
		}
		return true
	}
	for _, u := range []string{evil, mainURI} {
		for pi, p := range ps {
			if pi > 3 && u == mainURI {
				break
			}
			tp := fmt.Sprintf(`{"textDocument":{"uri":%q},"position":{"line":%d,"character":%d}`, u, p.Line, p.Character)
			for _, m := range [][2]string{
				{"textDocument/completion", tp + "}"}, {"textDocument/hover", tp + "}"}, {"textDocument/definition", tp + "}"},
				{"textDocument/references", tp + `,"context":{"includeDeclaration":true}}`}, {"textDocument/prepareRename", tp + "}"},
				{"textDocument/rename", tp + `,"newName":"x:y"}`}, {"textDocument/inlineCompletion", tp + `,"context":{"triggerKind":1}}`},
			} {
				if !call(m[0], m[1]) {
					return
				}
			}
		}
		td := fmt.Sprintf(`{"textDocument":{"uri":%q}}`, u)
		for _, m := range []string{"textDocument/documentSymbol", "textDocument/foldingRange", "textDocument/documentLink", "textDocument/semanticTokens/full", "textDocument/formatting", "textDocument/codeAction"} {
			params := td
			if m == "textDocument/formatting" {
				params = fmt.Sprintf(`{"textDocument":{"uri":%q},"options":{"tabSize":4,"insertSpaces":true}}`, u)
			}
			if m == "textDocument/codeAction" {
				params = fmt.Sprintf(`{"textDocument":{"uri":%q},"range":{"start":{"line":0,"character":0},"end":{"line":3,"character":0}},"context":{"diagnostics":[]}}`, u)
			}
			if !call(m, params) {
				return
			}
		}
	}
	if !call("workspace/symbol", `{"query":""}`) {
		return
	}
	a, b := ps[r.Intn(len(ps))], ps[r.Intn(len(ps))]
	w.NotifyRaw("textDocument/didChange", fmt.Sprintf(`{"textDocument":{"uri":%q,"version":2},"contentChanges":[{"range":{"start":{"line":%d,"character":%d},"end":{"line":%d,"character":%d}},"text":%s}]}`,
		evil, a.Line, a.Character, b.Line, b.Character, rawJSON(Pick(r, c06Dict))))
	w.NotifyRaw("textDocument/didSave", fmt.Sprintf(`{"textDocument":{"uri":%q}}`, evil))
	if !call("textDocument/documentSymbol", fmt.Sprintf(`{"textDocument":{"uri":%q}}`, evil)) {
		return
	}
	w.NotifyRaw("textDocument/didClose", fmt.Sprintf(`{"textDocument":{"uri":%q}}`, evil))
	call("textDocument/documentSymbol", fmt.Sprintf(`{"textDocument":{"uri":%q}}`, mainURI))
}
