package zv

import (
	"fmt"
	"math/big"
	"sort"
	"strings"

	"github.com/shopspring/decimal"

	"github.com/juev/hledger-lsp/internal/ast"
)

// Mismatch is one field in which the extracted structure differs from the model.
type Mismatch struct {
	Field string // e.g. "tx.desc", "posting.amount.qty"
	Entry int
	Want  string
	Got   string
}

func (m Mismatch) String() string {
	return fmt.Sprintf("entry %d %s: want %q got %q", m.Entry, m.Field, m.Want, m.Got)
}

func decRat(d decimal.Decimal) *big.Rat {
	r := new(big.Rat).SetInt(d.Coefficient())
	e := d.Exponent()
	p := new(big.Rat).SetInt(new(big.Int).Exp(big.NewInt(10), big.NewInt(int64(abs(int(e)))), nil))
	if e > 0 {
		r.Mul(r, p)
	} else if e < 0 {
		r.Quo(r, p)
	}
	return r
}

func ratStr(r *big.Rat) string {
	if r.IsInt() {
		return r.Num().String()
	}
	return r.FloatString(14)
}

type cmp struct {
	out   []Mismatch
	entry int
}

func (c *cmp) add(field, want, got string) {
	c.out = append(c.out, Mismatch{Field: field, Entry: c.entry, Want: want, Got: got})
}

func (c *cmp) str(field, want, got string) {
	if want != got {
		c.add(field, want, got)
	}
}

func (c *cmp) amount(field string, want *MAmount, got *ast.Amount) {
	if want == nil && got == nil {
		return
	}
	if want == nil || got == nil {
		c.add(field, fmt.Sprint(want != nil), fmt.Sprint(got != nil))
		return
	}
	if want.Rat().Cmp(decRat(got.Quantity)) != 0 {
		c.add(field+".qty", ratStr(want.Rat()), got.Quantity.String())
	}
	c.str(field+".commodity", want.Commodity, got.Commodity.Symbol)
	if want.Commodity != "" {
		wantLeft := want.Left()
		gotLeft := got.Commodity.Position == ast.CommodityLeft
		if wantLeft != gotLeft {
			c.add(field+".side", fmt.Sprint(wantLeft), fmt.Sprint(gotLeft))
		}
	}
}

func tagsOf(cs ...*MComment) []MTag {
	var out []MTag
	for _, cm := range cs {
		if cm != nil {
			out = append(out, cm.Tags...)
		}
	}
	return out
}

func tagList(ts []MTag) string {
	var s []string
	for _, t := range ts {
		s = append(s, t.Name+"="+t.Value)
	}
	sort.Strings(s)
	return strings.Join(s, ";")
}

func astTagList(ts []ast.Tag) []MTag {
	var out []MTag
	for _, t := range ts {
		out = append(out, MTag{t.Name, t.Value})
	}
	return out
}

func statusStr(s ast.Status) string {
	switch s {
	case ast.StatusCleared:
		return "*"
	case ast.StatusPending:
		return "!"
	}
	return ""
}

func virtStr(v ast.VirtualType) string {
	switch v {
	case ast.VirtualBalanced:
		return "["
	case ast.VirtualUnbalanced:
		return "("
	}
	return ""
}

func (c *cmp) date(field string, want MDate, got ast.Date) {
	w := fmt.Sprintf("%04d-%02d-%02d", want.Y, want.M, want.D)
	g := fmt.Sprintf("%04d-%02d-%02d", got.Year, got.Month, got.Day)
	c.str(field, w, g)
}

func (c *cmp) tx(want *MTx, got *ast.Transaction) {
	c.date("tx.date", want.Date, got.Date)
	if (want.Date2 != nil) != (got.Date2 != nil) {
		c.add("tx.date2", fmt.Sprint(want.Date2 != nil), fmt.Sprint(got.Date2 != nil))
	} else if want.Date2 != nil {
		c.date("tx.date2", *want.Date2, *got.Date2)
	}
	c.str("tx.status", want.Status, statusStr(got.Status))
	wc := ""
	if want.Code != nil {
		wc = *want.Code
	}
	c.str("tx.code", wc, got.Code)
	switch want.DescKind {
	case "none":
		c.str("tx.desc", "", got.Description)
	case "plain":
		c.str("tx.desc", want.Desc, got.Description)
		c.str("tx.payee", "", got.Payee)
	case "payee-note":
		c.str("tx.payee", want.Payee, got.Payee)
		c.str("tx.note", want.Note, got.Note)
	}
	// comments: header comment text; tags of header + indented comment lines collected from
	// wherever the implementation keeps them (tx.Tags, tx.Comments)
	var wantTxTags []MTag
	wantTxTags = append(wantTxTags, tagsOf(want.HComment)...)
	for i := range want.Lines {
		if want.Lines[i].Comment != nil {
			wantTxTags = append(wantTxTags, want.Lines[i].Comment.Tags...)
		}
	}
	var gotTxTags []MTag
	gotTxTags = append(gotTxTags, astTagList(got.Tags)...)
	for _, cm := range got.Comments {
		gotTxTags = append(gotTxTags, astTagList(cm.Tags)...)
	}
	c.str("tx.tags", tagList(wantTxTags), tagList(gotTxTags))
	if want.HComment != nil {
		g := ""
		if len(got.Comments) > 0 {
			g = strings.TrimSpace(got.Comments[0].Text)
		}
		c.str("tx.hcomment", strings.TrimSpace(want.HComment.Body()), g)
	}
	wps := want.Postings()
	if len(wps) != len(got.Postings) {
		c.add("tx.postings", fmt.Sprint(len(wps)), fmt.Sprint(len(got.Postings)))
		return
	}
	for i, wp := range wps {
		gp := &got.Postings[i]
		f := fmt.Sprintf("posting[%d]", i)
		c.str(f+".status", wp.Status, statusStr(gp.Status))
		c.str(f+".virtual", wp.Virtual, virtStr(gp.Virtual))
		c.str(f+".account", wp.Account, gp.Account.Name)
		c.amount(f+".amount", wp.Amount, gp.Amount)
		if (wp.Cost != nil) != (gp.Cost != nil) {
			c.add(f+".cost", fmt.Sprint(wp.Cost != nil), fmt.Sprint(gp.Cost != nil))
		} else if wp.Cost != nil {
			if wp.Cost.Total != gp.Cost.IsTotal {
				c.add(f+".cost.total", fmt.Sprint(wp.Cost.Total), fmt.Sprint(gp.Cost.IsTotal))
			}
			c.amount(f+".cost", &wp.Cost.Amt, &gp.Cost.Amount)
		}
		if (wp.Assert != nil) != (gp.BalanceAssertion != nil) {
			c.add(f+".assert", fmt.Sprint(wp.Assert != nil), fmt.Sprint(gp.BalanceAssertion != nil))
		} else if wp.Assert != nil {
			if wp.Assert.Strict != gp.BalanceAssertion.IsStrict {
				c.add(f+".assert.strict", fmt.Sprint(wp.Assert.Strict), fmt.Sprint(gp.BalanceAssertion.IsStrict))
			}
			c.amount(f+".assert", &wp.Assert.Amt, &gp.BalanceAssertion.Amount)
		}
		wcm := ""
		if wp.Comment != nil {
			wcm = strings.TrimSpace(wp.Comment.Body())
		}
		c.str(f+".comment", wcm, strings.TrimSpace(gp.Comment))
		c.str(f+".tags", tagList(tagsOf(wp.Comment)), tagList(astTagList(gp.Tags)))
	}
}

// formatDecl: a commodity directive's format, judged by what the project's own number-format
// reader makes of it is C04's business; C03 compares the declared symbol and that a format was
// captured when one was written.
func (c *cmp) dir(want *MDir, got ast.Directive) {
	switch want.Kind {
	case "account":
		g, ok := got.(ast.AccountDirective)
		if !ok {
			c.add("dir.kind", "account", fmt.Sprintf("%T", got))
			return
		}
		c.str("dir.account", want.Account, g.Account.Name)
		wcm := ""
		if want.Comment != nil {
			wcm = strings.TrimSpace(want.Comment.Body())
		}
		c.str("dir.comment", wcm, strings.TrimSpace(g.Comment))
		c.str("dir.tags", tagList(tagsOf(want.Comment)), tagList(astTagList(g.Tags)))
	case "commodity", "commodity-sample", "commodity-format":
		g, ok := got.(ast.CommodityDirective)
		if !ok {
			c.add("dir.kind", "commodity", fmt.Sprintf("%T", got))
			return
		}
		c.str("dir.commodity", want.Symbol, g.Commodity.Symbol)
		if want.Kind != "commodity" {
			if g.Format == "" {
				c.add("dir.format", "present", "")
			} else if !strings.Contains(strings.ReplaceAll(g.Format, " ", ""), strings.ReplaceAll(want.Sample.NumText(), " ", "")) {
				c.add("dir.format", want.Sample.NumText(), g.Format)
			}
		}
	case "P":
		g, ok := got.(ast.PriceDirective)
		if !ok {
			c.add("dir.kind", "P", fmt.Sprintf("%T", got))
			return
		}
		c.date("dir.P.date", want.Date, g.Date)
		c.str("dir.P.commodity", want.Symbol, g.Commodity.Symbol)
		c.amount("dir.P.price", want.Sample, &g.Price)
	case "Y":
		g, ok := got.(ast.YearDirective)
		if !ok {
			c.add("dir.kind", "Y", fmt.Sprintf("%T", got))
			return
		}
		c.str("dir.Y", fmt.Sprint(want.Year), fmt.Sprint(g.Year))
	case "D":
		g, ok := got.(ast.DefaultCommodityDirective)
		if !ok {
			c.add("dir.kind", "D", fmt.Sprintf("%T", got))
			return
		}
		c.str("dir.D.symbol", want.Sample.Commodity, g.Symbol)
		if g.Format == "" {
			c.add("dir.D.format", "present", "")
		}
	}
}

// CompareJournal compares the model with the structure the parser extracted.
func CompareJournal(j *MJournal, got *ast.Journal) []Mismatch {
	c := &cmp{}
	var wtx []*MEntry
	var wdir []*MEntry
	var winc []*MEntry
	var wcm []*MEntry
	idx := map[*MEntry]int{}
	for i, e := range j.Entries {
		idx[e] = i
		switch e.Kind {
		case "tx":
			wtx = append(wtx, e)
		case "dir":
			if e.Dir.Kind == "include" {
				winc = append(winc, e)
			} else {
				wdir = append(wdir, e)
			}
		case "comment":
			wcm = append(wcm, e)
		}
	}
	c.entry = -1
	if len(wtx) != len(got.Transactions) {
		c.add("count.transactions", fmt.Sprint(len(wtx)), fmt.Sprint(len(got.Transactions)))
	}
	if len(wdir) != len(got.Directives) {
		c.add("count.directives", fmt.Sprint(len(wdir)), fmt.Sprint(len(got.Directives)))
	}
	if len(winc) != len(got.Includes) {
		c.add("count.includes", fmt.Sprint(len(winc)), fmt.Sprint(len(got.Includes)))
	}
	if len(wcm) != len(got.Comments) {
		c.add("count.comments", fmt.Sprint(len(wcm)), fmt.Sprint(len(got.Comments)))
	}
	for i, e := range wtx {
		if i < len(got.Transactions) {
			c.entry = idx[e]
			c.tx(e.Tx, &got.Transactions[i])
		}
	}
	for i, e := range wdir {
		if i < len(got.Directives) {
			c.entry = idx[e]
			c.dir(e.Dir, got.Directives[i])
		}
	}
	for i, e := range winc {
		if i < len(got.Includes) {
			c.entry = idx[e]
			c.str("dir.include", e.Dir.Path, got.Includes[i].Path)
		}
	}
	for i, e := range wcm {
		if i < len(got.Comments) {
			c.entry = idx[e]
			c.str("comment.text", strings.TrimSpace(e.Comment.Body()), strings.TrimSpace(got.Comments[i].Text))
			c.str("comment.tags", tagList(e.Comment.Tags), tagList(astTagList(got.Comments[i].Tags)))
		}
	}
	return c.out
}
