package zv

import (
	"context"
	"fmt"
	"os"
	"path/filepath"
	"sort"
	"strings"
	"unicode"
	"unicode/utf8"

	"go.lsp.dev/protocol"
)

// C16 Completion is sound, complete for prefixes, bounded and frequency-ranked.

type c16State struct{ bad [][]string }

func c16Counts(tier string) int64 {
	if tier == "thorough" {
		return 60000
	}
	return 1500
}

func init() {
	Register(&Prop{
		ID:          "C16",
		Gomaxprocs:  2,
		Rule:        "workspaces of 1-3 journals from G (root/no root; 3-8 entries per file, an eighth of them 45-70 entries so that short fragments have 60-150 candidates); into one open document a probe entry is inserted (between two entries or at the end) whose probe line is built so that the harness knows the context and the typed fragment: account on a posting line (4 spaces, tab, 2 or 8 spaces indent; plain, with status, virtual), account directive, payee on a header line (with/without status and code), commodity after an amount / a cost / a balance assertion / on a commodity directive, tag name and tag value in header, posting and line comments; the line ends at the cursor (typing) or continues behind it; the fragment is a prefix (length 0..full, 4 case variants), a subsequence of an existing name, or garbage. Two servers configured with maxResults a<b (1..200), fuzzy on/off, counts on/off answer every probe. Oracle clauses: sound (label exists in the scope and matches the fragment: subsequence with fuzzy, prefix without, case-insensitively), complete (every scope name starting with the fragment is offered when fewer than max were returned), bounded, prefix law (list(a) = list(b)[:a]), ranking (empty fragment: no item precedes one that is certainly used more often), edit (a TextEdit replaces exactly [cursor-len(fragment), cursor]). Second part: every column of sampled lines of the unmodified document, weak oracle (labels exist for their kind, bounded, prefix law, edit range on the line and ending at the cursor). Non-trivial = probe with a non-empty required set or a non-empty answer; distinct by (slot, fragment class, config class).",
		Notes:       []string{"scope of names = C09's: the workspace tree with a root, the document's include closure without", "names created by the probe line itself (the fragment read as a name) are allowed but never required"},
		Cases:       c16Counts,
		MustObserve: []string{"probes", "items_checked", "required_checked", "prefix_pairs", "rank_pairs", "edits_checked", "sweep_positions", "history_probes"},
		Setup:       func(c *Ctx) { c.State = &c16State{bad: c.Known.BadFeatureSets("C03", "C09", "C16")} },
		RunCase:     runC16,
	})
}

type c16Universe struct {
	req   map[string]map[string]bool // kind -> names that must be offered
	all   map[string]map[string]bool // kind -> names that may be offered
	lo    map[string]map[string]int
	hi    map[string]map[string]int
	tvReq map[string]map[string]bool // tag -> values
	tvAll map[string]map[string]bool
}

func c16Collect(w *WS, scope []int) *c16Universe {
	u := &c16Universe{req: map[string]map[string]bool{}, all: map[string]map[string]bool{}, lo: map[string]map[string]int{}, hi: map[string]map[string]int{},
		tvReq: map[string]map[string]bool{}, tvAll: map[string]map[string]bool{}}
	for _, k := range []string{"account", "payee", "commodity", "tagname"} {
		u.req[k], u.all[k], u.lo[k], u.hi[k] = map[string]bool{}, map[string]bool{}, map[string]int{}, map[string]int{}
	}
	for _, f := range scope {
		j := w.Journals[f]
		for _, l := range w.Rd[f].Lex {
			inTx := l.Entry >= 0 && l.Entry < len(j.Entries) && j.Entries[l.Entry].Kind == "tx"
			switch l.Kind {
			case "account":
				if l.Name == "" {
					continue
				}
				u.req["account"][l.Name], u.all["account"][l.Name] = true, true
				if l.Role == "" {
					u.lo["account"][l.Name]++
				}
				u.hi["account"][l.Name]++
			case "payee", "desc":
				if l.Name == "" {
					continue
				}
				u.req["payee"][l.Name], u.all["payee"][l.Name] = true, true
				u.lo["payee"][l.Name]++
				u.hi["payee"][l.Name]++
			case "commodity":
				if l.Name == "" {
					continue
				}
				u.all["commodity"][l.Name] = true
				switch l.Role {
				case "amount", "cost":
					u.req["commodity"][l.Name] = true
					u.lo["commodity"][l.Name]++
				case "assert", "decl":
					u.req["commodity"][l.Name] = true
				}
				u.hi["commodity"][l.Name]++
			case "tagname":
				u.all["tagname"][l.Name] = true
				if inTx {
					u.req["tagname"][l.Name] = true
					u.lo["tagname"][l.Name]++
				}
				u.hi["tagname"][l.Name]++
				if u.tvAll[l.Name] == nil {
					u.tvAll[l.Name] = map[string]bool{}
				}
			case "tagvalue":
				if u.tvAll[l.Name] == nil {
					u.tvAll[l.Name] = map[string]bool{}
				}
				u.tvAll[l.Name][strings.TrimSpace(l.Text)] = true
				if inTx {
					if u.tvReq[l.Name] == nil {
						u.tvReq[l.Name] = map[string]bool{}
					}
					u.tvReq[l.Name][strings.TrimSpace(l.Text)] = true
				}
			}
		}
	}
	return u
}

func foldSubseq(pat, text string) bool {
	p := []rune(strings.ToLower(pat))
	t := []rune(strings.ToLower(text))
	j := 0
	for i := 0; i < len(t) && j < len(p); i++ {
		if t[i] == p[j] {
			j++
		}
	}
	return j == len(p)
}

func foldPrefix(pat, text string) bool {
	return strings.HasPrefix(strings.ToLower(text), strings.ToLower(pat))
}

func swapCase(s string) string {
	var sb strings.Builder
	for _, r := range s {
		switch {
		case unicode.IsUpper(r):
			sb.WriteRune(unicode.ToLower(r))
		case unicode.IsLower(r):
			sb.WriteRune(unicode.ToUpper(r))
		default:
			sb.WriteRune(r)
		}
	}
	return sb.String()
}

type c16Probe struct {
	Slot     string   // account payee commodity tagname tagvalue
	Variant  string   // where/how the probe line is built
	Lines    []string // probe entry
	PLine    int      // index of the probe line in Lines
	Before   string   // text of the probe line before the fragment
	Frag     string
	After    string // text behind the cursor
	FragKind string
	Target   string
	Tag      string // tagvalue: the tag name
	Extra    map[string]bool
}

func sortedKeys(m map[string]bool) []string {
	var out []string
	for k := range m {
		out = append(out, k)
	}
	sort.Strings(out)
	return out
}

// c16MakeProbe builds a probe for the universe u.
func c16MakeProbe(r *RNG, u *c16Universe) *c16Probe {
	p := &c16Probe{Extra: map[string]bool{}}
	p.Slot = Pick(r, []string{"account", "account", "account", "payee", "payee", "commodity", "commodity", "tagname", "tagvalue"})
	var names []string
	switch p.Slot {
	case "tagvalue":
		var tags []string
		for t, vs := range u.tvReq {
			if len(vs) > 0 {
				tags = append(tags, t)
			}
		}
		sort.Strings(tags)
		if len(tags) == 0 {
			p.Slot = "account"
			names = sortedKeys(u.req["account"])
		} else {
			p.Tag = Pick(r, tags)
			names = sortedKeys(u.tvReq[p.Tag])
		}
	default:
		names = sortedKeys(u.req[p.Slot])
	}
	if len(names) == 0 {
		names = []string{"zz"}
	}
	p.Target = Pick(r, names)
	tr := []rune(p.Target)
	// fragment
	switch r.Intn(10) {
	case 0:
		p.Frag, p.FragKind = "", "empty"
	case 1:
		p.Frag, p.FragKind = p.Target, "full"
	case 2:
		var sb []rune
		for _, x := range tr {
			if r.Chance(1, 2) && x != ' ' {
				sb = append(sb, x)
			}
		}
		p.Frag, p.FragKind = strings.TrimSpace(string(sb)), "subsequence"
		if p.Frag == "" {
			p.FragKind = "empty"
		}
	case 3:
		p.Frag, p.FragKind = "zq"+string(tr[:min(1, len(tr))]), "garbage"
	default:
		k := r.Range(1, len(tr))
		p.Frag, p.FragKind = string(tr[:k]), "prefix"
		if k == len(tr) {
			p.FragKind = "full"
		}
	}
	if p.FragKind == "prefix" || p.FragKind == "full" || p.FragKind == "subsequence" {
		switch r.Intn(6) {
		case 0:
			if v := strings.ToUpper(p.Frag); v != p.Frag {
				p.Frag, p.FragKind = v, p.FragKind+"/upper"
			}
		case 1:
			if v := strings.ToLower(p.Frag); v != p.Frag {
				p.Frag, p.FragKind = v, p.FragKind+"/lower"
			}
		case 2:
			if v := swapCase(p.Frag); v != p.Frag {
				p.Frag, p.FragKind = v, p.FragKind+"/swap"
			}
		}
	}
	// a fragment never ends in a blank (the cursor is behind something typed) except the empty one
	p.Frag = strings.TrimRight(p.Frag, " ")
	rest := ""
	mid := r.Chance(1, 4)
	if mid && strings.HasPrefix(p.FragKind, "prefix") && !strings.Contains(p.FragKind, "/") {
		rest = string(tr[utf8.RuneCountInString(p.Frag):])
	}
	date := fmt.Sprintf("2019-03-%02d", r.Range(1, 28))
	filler := "    probe:filler  1 PRB"
	p.Extra["probe:filler"], p.Extra["PRB"], p.Extra["probe-desc"] = true, true, true
	switch p.Slot {
	case "account":
		v := Pick(r, []string{"plain", "plain", "plain", "tab", "indent2", "indent8", "status", "virtual", "directive", "with-amount"})
		p.Variant = v
		switch v {
		case "directive":
			p.Lines, p.PLine, p.Before, p.After = []string{""}, 0, "account ", rest
		default:
			ind := map[string]string{"tab": "\t", "indent2": "  ", "indent8": "        "}[v]
			if ind == "" {
				ind = "    "
			}
			before, after := ind, rest
			switch v {
			case "status":
				before += Pick(r, []string{"* ", "! "})
			case "virtual":
				op := Pick(r, []string{"(", "["})
				before += op
				if mid {
					after = rest + map[string]string{"(": ")", "[": "]"}[op]
				}
			case "with-amount":
				after = rest + "  10 PRB"
			}
			p.Lines, p.PLine, p.Before, p.After = []string{date + " probe-desc", "", filler}, 1, before, after
		}
	case "payee":
		// text that reads as a status mark, a code or a comment is not a payee fragment
		if p.Frag != "" && strings.ContainsRune("(*!;|=", rune(p.Frag[0])) {
			p.Frag, p.FragKind = "", "empty"
			rest = ""
		}
		v := Pick(r, []string{"plain", "plain", "status", "code", "status+code", "date2"})
		p.Variant = v
		before := date + " "
		switch v {
		case "status":
			before += Pick(r, []string{"* ", "! "})
		case "code":
			before += "(c1) "
		case "status+code":
			before += "* (c1) "
		case "date2":
			before = date + "=" + date + " "
		}
		p.Lines, p.PLine, p.Before, p.After = []string{"", filler, filler}, 0, before, rest
	case "commodity":
		v := Pick(r, []string{"amount", "amount", "amount", "cost", "total-cost", "assert", "assert-only", "directive", "negative", "decimal"})
		p.Variant = v
		switch v {
		case "directive":
			before := "commodity "
			if strings.ContainsAny(p.Frag+p.Target, " \t0123456789-+.,@=;()*!") {
				before += `"`
				p.Variant += "/quoted"
				if rest != "" {
					rest += `"`
				}
			}
			p.Lines, p.PLine, p.Before, p.After = []string{""}, 0, before, rest
		default:
			before := map[string]string{"amount": "    probe:filler  10 ", "negative": "    probe:filler  -10 ", "decimal": "    probe:filler  1,000.50 ",
				"cost": "    probe:filler  10 PRB @ 2 ", "total-cost": "    probe:filler  10 PRB @@ 20 ", "assert": "    probe:filler  10 PRB = 50 ", "assert-only": "    probe:filler  = 50 "}[v]
			// a symbol that is not a plain word is typed in quotes
			if strings.ContainsAny(p.Frag+p.Target, " \t0123456789-+.,@=;()*!") {
				before += `"`
				p.Variant += "/quoted"
				if rest != "" {
					rest += `"`
				}
			}
			p.Lines, p.PLine, p.Before, p.After = []string{date + " probe-desc", "", filler}, 1, before, rest
		}
	case "tagname", "tagvalue":
		v := Pick(r, []string{"posting-comment", "header-comment", "comment-line", "second-tag"})
		p.Variant = v
		pre := ""
		if p.Slot == "tagvalue" {
			pre = p.Tag + ":"
		}
		switch v {
		case "posting-comment":
			p.Lines, p.PLine, p.Before = []string{date + " probe-desc", "", filler}, 1, "    probe:filler  1 PRB  ; "+pre
		case "header-comment":
			p.Lines, p.PLine, p.Before = []string{"", filler, filler}, 0, date+" probe-desc  ; "+pre
		case "comment-line":
			p.Lines, p.PLine, p.Before = []string{date + " probe-desc", "", filler, filler}, 1, "    ; "+pre
		case "second-tag":
			p.Extra["probetag"] = true
			p.Lines, p.PLine, p.Before = []string{date + " probe-desc", "", filler}, 1, "    probe:filler  1 PRB  ; probetag:pv, "+pre
		}
		p.After = rest
	}
	p.Lines[p.PLine] = p.Before + p.Frag + p.After
	return p
}

type c16Cfg struct {
	MaxA, MaxB    int
	Fuzzy, Counts bool
}

func (cf c16Cfg) opts(max int) map[string]any {
	return map[string]any{"completion": map[string]any{"maxResults": max, "fuzzyMatching": cf.Fuzzy, "showCounts": cf.Counts}}
}

func c16KindSlot(k protocol.CompletionItemKind) string {
	switch k {
	case protocol.CompletionItemKindVariable:
		return "account"
	case protocol.CompletionItemKindClass:
		return "payee"
	case protocol.CompletionItemKindEnum:
		return "commodity"
	case protocol.CompletionItemKindProperty:
		return "tagname"
	case protocol.CompletionItemKindValue:
		return "tagvalue"
	case protocol.CompletionItemKindConstant:
		return "date"
	}
	return fmt.Sprintf("kind%d", int(k))
}

func c16Labels(cl *protocol.CompletionList) []string {
	var out []string
	if cl != nil {
		for _, it := range cl.Items {
			out = append(out, it.Label)
		}
	}
	return out
}

func runC16(c *Ctx, idx int64) {
	st := c.State.(*c16State)
	r := c.RNG(idx, 0)
	nf := r.Range(1, 3)
	// sometimes the root journal on disk has no include directives yet: the editor's text adds them,
	// and with them a file that includes another one (main -> a -> b)
	dynInc := nf == 3 && r.Chance(1, 4)
	shape := "random"
	if dynInc {
		shape = "chain"
	}
	// an eighth of the workspaces are big: 45-70 entries per file, so that a short fragment has
	// far more candidates (60-150 names) than the smaller limits and, with fuzzy matching, than 64
	entries := [2]int{3, 8}
	if !dynInc && r.Chance(1, 8) {
		entries = [2]int{45, 70}
		if nf == 3 {
			nf = 2
		}
		c.Count("big_workspaces", 1)
	}
	w := genWorkspace(r, st.bad, WSOpt{Files: nf, Entries: entries, Shape: shape, LF: true})
	w.Root = r.Bool() || dynInc
	dir := filepath.Join(c.Dir, fmt.Sprintf("w%d", idx), "ws")
	os.MkdirAll(dir, 0o755)
	defer os.RemoveAll(filepath.Dir(dir))
	f := r.Intn(nf)
	// sometimes an included file does not exist yet when the server starts and is created in the editor
	late := -1
	if w.Root && nf >= 2 && r.Chance(1, 3) && !dynInc {
		late = 1 + r.Intn(nf-1)
	}
	if dynInc {
		f = 0
		c.Count("includes_added_by_the_editor", 1)
	}
	for i, n := range w.Names {
		if i == late {
			continue
		}
		pth := filepath.Join(dir, n)
		os.MkdirAll(filepath.Dir(pth), 0o755)
		text := w.Texts[i]
		if dynInc && i == 0 {
			var keep []string
			for _, l := range strings.Split(text, "\n") {
				if !strings.HasPrefix(l, "include ") {
					keep = append(keep, l)
				}
			}
			text = strings.Join(keep, "\n")
		}
		os.WriteFile(pth, []byte(text), 0o644)
	}
	lateSaved := r.Bool()
	maxes := []int{1, 2, 3, 5, 8, 13, 50, 200}
	ia := r.Intn(len(maxes) - 1)
	cf := c16Cfg{MaxA: maxes[ia], MaxB: maxes[ia+1+r.Intn(len(maxes)-1-ia)], Fuzzy: r.Chance(2, 3), Counts: r.Bool()}
	sa := NewSession(dir, SessOpt{Root: w.Root, InitOptions: cf.opts(cf.MaxA)})
	sb := NewSession(dir, SessOpt{Root: w.Root, InitOptions: cf.opts(cf.MaxB)})
	sa.Drain()
	uri := w.URI(sa, f)
	openOthers := r.Chance(1, 3) && !dynInc
	sb.Drain()
	if late >= 0 {
		c.Count("late_created_files", 1)
		for _, s := range []*Session{sa, sb} {
			lu := w.URI(s, late)
			s.Open(lu, "")
			s.ChangeFull(lu, w.Texts[late])
			s.Drain()
		}
		if lateSaved {
			pth := filepath.Join(dir, w.Names[late])
			os.MkdirAll(filepath.Dir(pth), 0o755)
			os.WriteFile(pth, []byte(w.Texts[late]), 0o644)
			for _, s := range []*Session{sa, sb} {
				s.Save(w.URI(s, late))
				s.Drain()
			}
		}
	}
	for _, s := range []*Session{sa, sb} {
		if f == late {
			continue
		}
		if openOthers {
			for g := range w.Names {
				if g != f && g != late {
					s.OpenWait(w.URI(s, g), w.Texts[g])
				}
			}
		}
		s.OpenWait(uri, w.Texts[f])
		s.Drain()
	}
	u := c16Collect(w, w.Scope(f))
	cfgClass := fmt.Sprintf("fuzzy=%v", cf.Fuzzy)
	ctx := context.Background()
	ask := func(s *Session, line, ch int) *protocol.CompletionList {
		cl, _ := s.Srv.Completion(ctx, &protocol.CompletionParams{TextDocumentPositionParams: protocol.TextDocumentPositionParams{
			TextDocument: protocol.TextDocumentIdentifier{URI: uri}, Position: protocol.Position{Line: uint32(line), Character: uint32(ch)}}})
		return cl
	}
	base := map[string]any{"workspace": w.String(), "workspace_root": w.Root, "document": w.Names[f], "config": cf}
	if dynInc {
		base["root_on_disk_has_no_include_directives"] = true
	}
	if late >= 0 {
		base["created_after_start"] = map[string]any{"file": w.Names[late], "saved": lateSaved}
	}
	viol := func(kind, slot, detail string, extra map[string]any) {
		wit := map[string]any{}
		for k, v := range base {
			wit[k] = v
		}
		for k, v := range extra {
			wit[k] = v
		}
		c.Violate(Violation{Kind: kind, Sig: "C16:" + kind + "(" + slot + ")", Pool: "clean", Detail: detail, Witness: wit})
	}
	// ---- part 1: probes with a known context
	docLines := strings.Split(strings.TrimSuffix(w.Texts[f], "\n"), "\n")
	j := w.Journals[f]
	nprobes := 10
	// place inserts the probe entry into the document and returns the text, the probe line and the cursor
	place := func(p *c16Probe) (string, int, int) {
		// insertion point: before entry k (at its first line) or at the end
		at := len(docLines)
		if len(j.Entries) > 0 && r.Chance(1, 2) {
			e := j.Entries[r.Intn(len(j.Entries))]
			// only before an entry that starts a paragraph of its own
			if e.Line0 <= len(docLines) && (e.Line0 == 0 || strings.TrimSpace(docLines[e.Line0-1]) == "") {
				at = e.Line0
			}
		}
		var lines []string
		lines = append(lines, docLines[:at]...)
		lines = append(lines, "")
		pl := len(lines) + p.PLine
		lines = append(lines, p.Lines...)
		lines = append(lines, "")
		lines = append(lines, docLines[at:]...)
		text := strings.Join(lines, "\n") + "\n"
		return text, pl, u16len(p.Before + p.Frag)
	}
	// judge asks both servers and applies the oracle for universe u; false = violation reported
	judge := func(p *c16Probe, text string, pl, ch int, u *c16Universe, stage string, sample bool) bool {
		la, lb := ask(sa, pl, ch), ask(sb, pl, ch)
		c.Count("probes", 1)
		wit := map[string]any{"probe": p, "probe_line": pl, "cursor_character": ch, "document_text": text, "answer_max_a": la, "answer_max_b": lb, "stage": stage}
		where := fmt.Sprintf("%s/%s fragment %q (%s) on line %q, cursor at character %d", p.Slot, p.Variant, p.Frag, p.FragKind, p.Lines[p.PLine], ch)
		slotv := p.Slot + "/" + p.Variant
		// allowed / required
		allowed, required := map[string]bool{}, map[string]bool{}
		if p.Slot == "tagvalue" {
			for v := range u.tvAll[p.Tag] {
				allowed[v] = true
			}
			for v := range u.tvReq[p.Tag] {
				required[v] = true
			}
		} else {
			for n := range u.all[p.Slot] {
				allowed[n] = true
			}
			for n := range u.req[p.Slot] {
				required[n] = true
			}
		}
		for n := range p.Extra {
			allowed[n] = true
		}
		full := strings.TrimSpace(p.Frag + strings.TrimSuffix(strings.TrimSuffix(strings.TrimSuffix(strings.TrimSuffix(p.After, "  10 PRB"), ")"), "]"), `"`))
		for _, n := range []string{p.Frag, strings.TrimSpace(p.Frag), full, "(" + p.Frag, "[" + p.Frag, p.Target} {
			allowed[n] = true
		}
		nontrivial := false
		for _, pair := range []struct {
			cl  *protocol.CompletionList
			max int
		}{{la, cf.MaxA}, {lb, cf.MaxB}} {
			var items []protocol.CompletionItem
			if pair.cl != nil {
				items = pair.cl.Items
			}
			if len(items) > 0 {
				nontrivial = true
			}
			// bounded
			if len(items) > pair.max {
				viol("unbounded", p.Slot, fmt.Sprintf("%s: %d items returned with maxResults=%d", where, len(items), pair.max), wit)
				return false
			}
			got := map[string]bool{}
			for i, it := range items {
				c.Count("items_checked", 1)
				got[it.Label] = true
				// sound: kind, existence, match
				if ks := c16KindSlot(it.Kind); ks != p.Slot {
					viol("wrong-context", slotv, fmt.Sprintf("%s: item %q is a %s item", where, it.Label, ks), wit)
					return false
				}
				if !allowed[it.Label] {
					viol("unsound-name", p.Slot, fmt.Sprintf("%s: item %q is not a %s of the document or its workspace", where, it.Label, p.Slot), wit)
					return false
				}
				match := foldPrefix(p.Frag, it.Label)
				if cf.Fuzzy {
					match = foldSubseq(p.Frag, it.Label)
				}
				if !match {
					viol("unsound-match", p.Slot+","+cfgClass, fmt.Sprintf("%s: item %q does not match the fragment (fuzzy=%v)", where, it.Label, cf.Fuzzy), wit)
					return false
				}
				// edit
				if it.TextEdit == nil {
					c.Count("items_without_textedit", 1)
				} else {
					c.Count("edits_checked", 1)
					want := protocol.Range{Start: protocol.Position{Line: uint32(pl), Character: uint32(u16len(p.Before))}, End: protocol.Position{Line: uint32(pl), Character: uint32(ch)}}
					if it.TextEdit.Range != want {
						viol("edit-range", slotv, fmt.Sprintf("%s: item %q replaces %v, the typed fragment is %v", where, it.Label, rangeStr(it.TextEdit.Range), rangeStr(want)), wit)
						return false
					}
					wantText := it.Label
					if it.InsertText != "" {
						wantText = it.InsertText
					}
					if it.TextEdit.NewText != wantText {
						viol("edit-text", p.Slot, fmt.Sprintf("%s: item %q inserts %q", where, it.Label, it.TextEdit.NewText), wit)
						return false
					}
				}
				// ranking
				if p.Frag == "" && p.Slot != "tagvalue" && i > 0 && !p.Extra[it.Label] && !p.Extra[items[i-1].Label] {
					c.Count("rank_pairs", 1)
					prev := items[i-1].Label
					if u.hi[p.Slot][prev]+1 < u.lo[p.Slot][it.Label] {
						viol("ranking", p.Slot, fmt.Sprintf("%s: %q (used at most %d times) is listed before %q (used at least %d times)", where, prev, u.hi[p.Slot][prev]+1, it.Label, u.lo[p.Slot][it.Label]), wit)
						return false
					}
				}
			}
			// complete
			if len(items) < pair.max {
				for _, n := range sortedKeys(required) {
					if !foldPrefix(p.Frag, n) {
						continue
					}
					nontrivial = true
					c.Count("required_checked", 1)
					if !got[n] {
						kind := "incomplete"
						if !strings.HasPrefix(n, p.Frag) {
							kind = "incomplete-other-case"
						}
						viol(kind, slotv+","+cfgClass, fmt.Sprintf("%s: %q starts with the fragment and is not offered (%d items, maxResults=%d)", where, n, len(items), pair.max), wit)
						return false
					}
				}
			}
		}
		// prefix law
		a, b := c16Labels(la), c16Labels(lb)
		c.Count("prefix_pairs", 1)
		lim := cf.MaxA
		if len(b) < lim {
			lim = len(b)
		}
		if len(a) != lim || strings.Join(a, "\x00") != strings.Join(b[:lim], "\x00") {
			viol("prefix-law", p.Slot, fmt.Sprintf("%s: maxResults=%d returns %q, maxResults=%d returns %q", where, cf.MaxA, a, cf.MaxB, b), wit)
			return false
		}
		if nontrivial {
			c.Nontrivial(HashStr(p.Slot + "|" + p.Variant + "|" + p.FragKind + "|" + cfgClass))
		}
		if sample {
			c.Sample(map[string]any{"case": idx, "probe": where, "config": cf, "answer": a, "required": sortedKeys(required)})
		}
		return true
	}
	setText := func(text string) {
		for _, s := range []*Session{sa, sb} {
			s.ChangeFull(uri, text)
			s.Drain()
		}
	}
	for pi := 0; pi < nprobes; pi++ {
		p := c16MakeProbe(r, u)
		text, pl, ch := place(p)
		setText(text)
		if !judge(p, text, pl, ch, u, "probe", idx%97 == 0 && pi == 0) {
			return
		}
	}
	// ---- ranking probes: nothing typed, in each context once (plain line forms)
	for _, slot := range []string{"payee", "account", "commodity", "tagname"} {
		var p *c16Probe
		for try := 0; try < 300; try++ {
			if p = c16MakeProbe(r, u); p.Slot == slot && p.Frag == "" && !strings.Contains(p.Variant, "directive") {
				break
			}
			p = nil
		}
		if p == nil {
			continue
		}
		text, pl, ch := place(p)
		setText(text)
		c.Count("ranking_probes", 1)
		if !judge(p, text, pl, ch, u, "ranking probe", false) {
			return
		}
	}
	// ---- history: the same request again after another file of the scope gained names
	if scope := w.Scope(f); len(scope) >= 2 {
		g := scope[r.Intn(len(scope))]
		for g == f {
			g = scope[r.Intn(len(scope))]
		}
		added := map[string]string{"account": "added:account", "payee": "Added Payee", "commodity": "ADD", "tagname": "addedtag"}
		u2 := c16Collect(w, scope)
		for k, n := range added {
			u2.req[k][n], u2.all[k][n] = true, true
			u2.lo[k][n], u2.hi[k][n] = 1, 1
		}
		u2.tvAll["addedtag"], u2.tvReq["addedtag"] = map[string]bool{"av": true}, map[string]bool{"av": true}
		slot := Pick(r, []string{"account", "payee", "commodity", "tagname"})
		var p *c16Probe
		for try := 0; try < 200; try++ {
			if p = c16MakeProbe(r, u2); p.Slot == slot && p.Target == added[slot] && (strings.HasPrefix(p.FragKind, "prefix") || p.FragKind == "empty") {
				break
			}
			p = nil
		}
		if p != nil {
			text, pl, ch := place(p)
			setText(text)
			if !judge(p, text, pl, ch, u, "before the other file is edited", false) {
				return
			}
			gtext := w.Texts[g] + "\n2019-04-01 Added Payee  ; addedtag:av\n    added:account  1 ADD\n    probe:filler\n"
			for _, s := range []*Session{sa, sb} {
				gu := w.URI(s, g)
				s.Open(gu, w.Texts[g])
				s.Drain()
				s.ChangeFull(gu, gtext)
				s.Drain()
			}
			c.Count("history_probes", 1)
			base["other_file_edited"] = map[string]any{"file": w.Names[g], "text": gtext}
			if !judge(p, text, pl, ch, u2, "after "+w.Names[g]+" gained names", false) {
				return
			}
			delete(base, "other_file_edited")
			for _, s := range []*Session{sa, sb} {
				s.ChangeFull(w.URI(s, g), w.Texts[g])
				s.Drain()
			}
		}
	}
	// ---- part 2: every column of sampled lines of the unmodified document
	for _, s := range []*Session{sa, sb} {
		s.ChangeFull(uri, w.Texts[f])
		s.Drain()
	}
	anyAll := map[string]map[string]bool{}
	for k, m := range u.all {
		anyAll[k] = m
	}
	tv := map[string]bool{}
	for _, m := range u.tvAll {
		for v := range m {
			tv[v] = true
		}
	}
	anyAll["tagvalue"] = tv
	nl := len(docLines)
	for k := 0; k < 6 && nl > 0; k++ {
		ln := r.Intn(nl + 1) // one line past the end included
		lt := ""
		if ln < nl {
			lt = docLines[ln]
		}
		for ch := 0; ch <= u16len(lt)+1; ch++ {
			la, lb := ask(sa, ln, ch), ask(sb, ln, ch)
			c.Count("sweep_positions", 1)
			where := fmt.Sprintf("unmodified document, line %d %q character %d", ln, lt, ch)
			wit := map[string]any{"line": ln, "character": ch, "answer_max_a": la, "answer_max_b": lb}
			for _, pair := range []struct {
				cl  *protocol.CompletionList
				max int
			}{{la, cf.MaxA}, {lb, cf.MaxB}} {
				if pair.cl == nil {
					continue
				}
				if len(pair.cl.Items) > pair.max {
					viol("unbounded", "sweep", fmt.Sprintf("%s: %d items with maxResults=%d", where, len(pair.cl.Items), pair.max), wit)
					return
				}
				for _, it := range pair.cl.Items {
					ks := c16KindSlot(it.Kind)
					if m, ok := anyAll[ks]; ok && !m[it.Label] {
						viol("unsound-name", ks+",sweep", fmt.Sprintf("%s: item %q is not a %s of the document or its workspace", where, it.Label, ks), wit)
						return
					}
					if it.TextEdit != nil {
						rg := it.TextEdit.Range
						cur := protocol.Position{Line: uint32(ln), Character: uint32(ch)}
						if ch > u16len(lt) {
							cur.Character = uint32(u16len(lt)) // the server may clamp
						}
						if rg.Start.Line != uint32(ln) || rg.End.Line != uint32(ln) || rg.Start.Character > rg.End.Character || (rg.End.Character != uint32(ch) && rg.End != cur) {
							viol("edit-range", "sweep", fmt.Sprintf("%s: item %q replaces %v", where, it.Label, rangeStr(rg)), wit)
							return
						}
					}
				}
			}
			a, b := c16Labels(la), c16Labels(lb)
			// the three clock items are the same in both answers unless midnight passes in between: compare from index 0 anyway
			lim := cf.MaxA
			if len(b) < lim {
				lim = len(b)
			}
			if len(a) != lim || strings.Join(a, "\x00") != strings.Join(b[:lim], "\x00") {
				viol("prefix-law", "sweep", fmt.Sprintf("%s: maxResults=%d returns %q, maxResults=%d returns %q", where, cf.MaxA, a, cf.MaxB, b), wit)
				return
			}
		}
	}
}

func rangeStr(r protocol.Range) string {
	return fmt.Sprintf("%d:%d-%d:%d", r.Start.Line, r.Start.Character, r.End.Line, r.End.Character)
}
