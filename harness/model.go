package zv

import (
	"fmt"
	"math/big"
	"sort"
	"strings"
	"unicode/utf8"
)

// ---------------------------------------------------------------------------
// Model of a journal of the supported grammar G (DESIGN.md section 4.2). The text is rendered
// from the model, so the structure, exact quantities and every lexeme span are known by
// construction.

type MDate struct {
	Y, M, D int
	Sep     byte
	Pad     bool
	Partial bool // rendered as M sep D (needs an earlier Y directive)
}

type MTag struct{ Name, Value string }

type MComment struct {
	Lead string // blanks between ';' and the body
	Free string // free text without ':' (may be empty)
	Tags []MTag
}

// Body is the text after the blanks following ';'.
func (c *MComment) Body() string {
	var parts []string
	for _, t := range c.Tags {
		if t.Value == "" {
			parts = append(parts, t.Name+":")
		} else {
			parts = append(parts, t.Name+":"+t.Value)
		}
	}
	tags := strings.Join(parts, ", ")
	switch {
	case c.Free == "":
		return tags
	case tags == "":
		return c.Free
	default:
		return c.Free + ", " + tags
	}
}

type MNum struct {
	Int    string // integer digits, no leading zeros except "0"
	Frac   string // fractional digits (may be empty)
	HasExp bool
	Exp    int
}

type MAmount struct {
	Neg       bool
	Num       MNum
	Notation  string // int point comma grp,. grp., grp_. grp_, trail exp
	ExpStyle  string // for Notation exp: "E" "e" and mantissa mark "." or ","
	Commodity string
	Form      string // code-right sym-left sym-right code-left code-left-nospace lower-right quoted-right quoted-left none
	NoSpace   bool   // no blank between number and right commodity
	Sign      string // "" "-num" "-precomm" "-postcomm" "+num" "+precomm" "+postcomm"
}

// Rat is the exact value of the amount.
func (a *MAmount) Rat() *big.Rat {
	s := a.Num.Int
	if a.Num.Frac != "" {
		s += "." + a.Num.Frac
	}
	r, _ := new(big.Rat).SetString(s)
	if a.Num.HasExp && a.Num.Exp != 0 {
		p := new(big.Rat).SetInt(new(big.Int).Exp(big.NewInt(10), big.NewInt(int64(abs(a.Num.Exp))), nil))
		if a.Num.Exp > 0 {
			r.Mul(r, p)
		} else {
			r.Quo(r, p)
		}
	}
	if a.Neg {
		r.Neg(r)
	}
	return r
}

func abs(x int) int {
	if x < 0 {
		return -x
	}
	return x
}

func (a *MAmount) Left() bool {
	switch a.Form {
	case "sym-left", "code-left", "code-left-nospace", "quoted-left":
		return true
	}
	return false
}

type MCost struct {
	Total bool
	Amt   MAmount
}

type MAssert struct {
	Strict bool
	Sep    string
	Amt    MAmount
}

type MPosting struct {
	Indent  string
	Status  string // "" "*" "!"
	Virtual string // "" "(" "["
	Account string
	Sep     string
	Amount  *MAmount
	Cost    *MCost
	Assert  *MAssert
	CGap    string
	Comment *MComment
}

type MTxLine struct {
	Posting *MPosting
	Comment *MComment // indented transaction comment line
	Indent  string
}

type MTx struct {
	Date     MDate
	Date2    *MDate
	Status   string
	Code     *string
	DescKind string // none plain payee-note
	Desc     string
	// DescTrail: Unicode blanks behind the description / note (not part of it)
	DescTrail string
	Payee     string
	Note      string
	PipeSp    bool
	Seps      []string // separators between header parts
	HCGap     string
	HComment  *MComment
	Lines     []MTxLine
}

func (t *MTx) Postings() []*MPosting {
	var ps []*MPosting
	for i := range t.Lines {
		if t.Lines[i].Posting != nil {
			ps = append(ps, t.Lines[i].Posting)
		}
	}
	return ps
}

type MDir struct {
	Kind string // account commodity commodity-sample commodity-format include P Y year D
	// account
	Account  string
	CGap     string
	Comment  *MComment // same-line comment
	SubCmt   *MComment // indented comment line
	SubInd   string
	Symbol   string   // commodity symbol / P commodity
	Sample   *MAmount // commodity sample / format sample / D sample / P price
	Path     string
	Date     MDate
	Year     int
	KeywordY string
}

type MEntry struct {
	Kind    string // tx dir comment
	Gap     string // gap before this entry: one none multi blanks
	GapN    int
	Tx      *MTx
	Dir     *MDir
	Comment *MComment
	Feats   []string
	// filled by the renderer
	Line0, Line1 int // first and last line (0-based, inclusive) of the entry
}

type MJournal struct {
	Entries      []*MEntry
	EOL          string
	FinalNewline bool
	Feats        []string // journal-level features (eol.crlf, nofinalnewline)
}

// ---------------------------------------------------------------------------
// Lexemes

type Lexeme struct {
	Kind    string `json:"kind"` // date date2 status code desc payee note pipe comment tagname tagvalue account number commodity sign op directive path keyword
	Role    string `json:"role,omitempty"`
	Text    string `json:"text"`
	Line    int    `json:"line"`
	B0, B1  int    `json:"-"`
	R0, R1  int    `json:"-"`
	U0, U1  int    `json:"u0"`
	Entry   int    `json:"entry"`
	Posting int    `json:"posting"`
	Name    string `json:"name,omitempty"` // symbol name (unquoted commodity, account, payee)
}

type Rendered struct {
	Text  string
	Lines []string // without line terminators
	Lex   []Lexeme
}

type lineWriter struct {
	out   *Rendered
	cur   strings.Builder
	line  int
	entry int
	pidx  int
	eol   string
	all   strings.Builder
}

func u16len(s string) int {
	n := 0
	for _, r := range s {
		if r >= 0x10000 {
			n += 2
		} else {
			n++
		}
	}
	return n
}

func (w *lineWriter) raw(s string) { w.cur.WriteString(s) }

func (w *lineWriter) lex(kind, role, text, name string) {
	cur := w.cur.String()
	l := Lexeme{Kind: kind, Role: role, Text: text, Name: name, Line: w.line, Entry: w.entry, Posting: w.pidx,
		B0: len(cur), R0: utf8.RuneCountInString(cur), U0: u16len(cur)}
	w.cur.WriteString(text)
	l.B1 = l.B0 + len(text)
	l.R1 = l.R0 + utf8.RuneCountInString(text)
	l.U1 = l.U0 + u16len(text)
	w.out.Lex = append(w.out.Lex, l)
}

func (w *lineWriter) nl() {
	w.out.Lines = append(w.out.Lines, w.cur.String())
	w.all.WriteString(w.cur.String())
	w.all.WriteString(w.eol)
	w.cur.Reset()
	w.line++
}

func (d MDate) String() string {
	f := "%d"
	if d.Pad {
		f = "%02d"
	}
	sep := string(d.Sep)
	if d.Partial {
		return fmt.Sprintf(f+"%s"+f, d.M, sep, d.D)
	}
	return fmt.Sprintf("%04d%s"+f+"%s"+f, d.Y, sep, d.M, sep, d.D)
}

func groupDigits(s, mark string) string {
	if len(s) <= 3 {
		return s
	}
	var parts []string
	for len(s) > 3 {
		parts = append([]string{s[len(s)-3:]}, parts...)
		s = s[:len(s)-3]
	}
	parts = append([]string{s}, parts...)
	return strings.Join(parts, mark)
}

// NumText renders the unsigned number in its notation.
func (a *MAmount) NumText() string {
	n := a.Num
	switch a.Notation {
	case "int":
		return n.Int
	case "point":
		return n.Int + "." + n.Frac
	case "comma":
		return n.Int + "," + n.Frac
	case "grp,.":
		s := groupDigits(n.Int, ",")
		if n.Frac != "" {
			s += "." + n.Frac
		}
		return s
	case "grp.,":
		s := groupDigits(n.Int, ".")
		if n.Frac != "" {
			s += "," + n.Frac
		}
		return s
	case "grp_.":
		s := groupDigits(n.Int, " ")
		if n.Frac != "" {
			s += "." + n.Frac
		}
		return s
	case "grp_,":
		s := groupDigits(n.Int, " ")
		if n.Frac != "" {
			s += "," + n.Frac
		}
		return s
	case "trail":
		return n.Int + "."
	case "exp":
		m := n.Int
		mark := "."
		e := "E"
		if strings.Contains(a.ExpStyle, ",") {
			mark = ","
		}
		if strings.Contains(a.ExpStyle, "e") {
			e = "e"
		}
		if n.Frac != "" {
			m += mark + n.Frac
		}
		es := fmt.Sprintf("%d", n.Exp)
		if n.Exp > 0 && strings.Contains(a.ExpStyle, "+") {
			es = "+" + es
		}
		return m + e + es
	}
	return n.Int
}

func quoteIfNeeded(form, sym string) string {
	if strings.HasPrefix(form, "quoted") {
		return `"` + sym + `"`
	}
	return sym
}

func (w *lineWriter) amount(a *MAmount, role string) {
	num := a.NumText()
	csym := quoteIfNeeded(a.Form, a.Commodity)
	signCh := ""
	if a.Sign != "" {
		signCh = a.Sign[:1]
	}
	if a.Left() {
		if a.Sign == "-precomm" || a.Sign == "+precomm" {
			w.lex("sign", role, signCh, "")
		}
		w.lex("commodity", role, csym, a.Commodity)
		if a.Form == "code-left" || a.Form == "quoted-left" {
			if !a.NoSpace {
				w.raw(" ")
			}
		}
		if a.Sign == "-postcomm" || a.Sign == "+postcomm" || a.Sign == "-num" || a.Sign == "+num" {
			w.lex("sign", role, signCh, "")
		}
		w.lex("number", role, num, "")
		return
	}
	if signCh != "" {
		w.lex("sign", role, signCh, "")
	}
	w.lex("number", role, num, "")
	if a.Form != "none" {
		if !a.NoSpace {
			w.raw(" ")
		}
		w.lex("commodity", role, csym, a.Commodity)
	}
}

func (w *lineWriter) comment(c *MComment) {
	// the comment lexeme covers ';' to the end of the line; tag lexemes lie inside it
	cur := w.cur.String()
	body := c.Body()
	full := ";" + c.Lead + body
	l := Lexeme{Kind: "comment", Text: full, Line: w.line, Entry: w.entry, Posting: w.pidx,
		B0: len(cur), R0: utf8.RuneCountInString(cur), U0: u16len(cur)}
	l.B1, l.R1, l.U1 = l.B0+len(full), l.R0+utf8.RuneCountInString(full), l.U0+u16len(full)
	w.out.Lex = append(w.out.Lex, l)
	w.raw(";" + c.Lead)
	if c.Free != "" {
		w.raw(c.Free)
		if len(c.Tags) > 0 {
			w.raw(", ")
		}
	}
	for i, t := range c.Tags {
		if i > 0 {
			w.raw(", ")
		}
		w.lex("tagname", "", t.Name+":", t.Name)
		if t.Value != "" {
			w.lex("tagvalue", "", t.Value, t.Name)
		}
	}
}

func (w *lineWriter) posting(p *MPosting) {
	w.raw(p.Indent)
	if p.Status != "" {
		w.lex("status", "posting", p.Status, "")
		w.raw(" ")
	}
	switch p.Virtual {
	case "(":
		w.raw("(")
		w.lex("account", "", p.Account, p.Account)
		w.raw(")")
	case "[":
		w.raw("[")
		w.lex("account", "", p.Account, p.Account)
		w.raw("]")
	default:
		w.lex("account", "", p.Account, p.Account)
	}
	if p.Amount != nil {
		w.raw(p.Sep)
		w.amount(p.Amount, "amount")
		if p.Cost != nil {
			w.raw(" ")
			if p.Cost.Total {
				w.lex("op", "cost", "@@", "")
			} else {
				w.lex("op", "cost", "@", "")
			}
			w.raw(" ")
			w.amount(&p.Cost.Amt, "cost")
		}
	}
	if p.Assert != nil {
		w.raw(p.Assert.Sep)
		if p.Assert.Strict {
			w.lex("op", "assert", "==", "")
		} else {
			w.lex("op", "assert", "=", "")
		}
		w.raw(" ")
		w.amount(&p.Assert.Amt, "assert")
	}
	if p.Comment != nil {
		w.raw(p.CGap)
		w.comment(p.Comment)
	}
}

func (w *lineWriter) tx(t *MTx) {
	si := 0
	sep := func() {
		s := " "
		if si < len(t.Seps) {
			s = t.Seps[si]
		}
		si++
		w.raw(s)
	}
	w.lex("date", "", t.Date.String(), "")
	if t.Date2 != nil {
		w.lex("op", "date2", "=", "")
		w.lex("date2", "", t.Date2.String(), "")
	}
	if t.Status != "" {
		sep()
		w.lex("status", "tx", t.Status, "")
	}
	if t.Code != nil {
		sep()
		w.lex("code", "", "("+*t.Code+")", *t.Code)
	}
	switch t.DescKind {
	case "plain":
		sep()
		w.lex("desc", "", t.Desc, t.Desc)
		w.raw(t.DescTrail)
	case "payee-note":
		sep()
		w.lex("payee", "", t.Payee, t.Payee)
		if t.PipeSp {
			w.raw(" ")
		}
		w.lex("pipe", "", "|", "")
		if t.PipeSp {
			w.raw(" ")
		}
		w.lex("note", "", t.Note, "")
		w.raw(t.DescTrail)
	}
	if t.HComment != nil {
		w.raw(t.HCGap)
		w.comment(t.HComment)
	}
	w.nl()
	pi := 0
	for i := range t.Lines {
		ln := &t.Lines[i]
		if ln.Posting != nil {
			w.pidx = pi
			w.posting(ln.Posting)
			pi++
			w.pidx = -1
		} else {
			w.raw(ln.Indent)
			w.comment(ln.Comment)
		}
		w.nl()
	}
}

func (w *lineWriter) dir(d *MDir) {
	switch d.Kind {
	case "account":
		w.lex("directive", "", "account", "")
		w.raw(" ")
		w.lex("account", "decl", d.Account, d.Account)
		if d.Comment != nil {
			w.raw(d.CGap)
			w.comment(d.Comment)
		}
		w.nl()
		if d.SubCmt != nil {
			w.raw(d.SubInd)
			w.comment(d.SubCmt)
			w.nl()
		}
	case "commodity":
		w.lex("directive", "", "commodity", "")
		w.raw(" ")
		w.lex("commodity", "decl", quoteIfNeeded(d.Sample.Form, d.Symbol), d.Symbol)
		w.nl()
	case "commodity-sample":
		w.lex("directive", "", "commodity", "")
		w.raw(" ")
		w.amount(d.Sample, "decl")
		w.nl()
	case "commodity-format":
		w.lex("directive", "", "commodity", "")
		w.raw(" ")
		w.lex("commodity", "decl", quoteIfNeeded(d.Sample.Form, d.Symbol), d.Symbol)
		w.nl()
		w.raw(d.SubInd)
		w.lex("keyword", "", "format", "")
		w.raw(" ")
		w.amount(d.Sample, "format")
		w.nl()
	case "include":
		w.lex("directive", "", "include", "")
		w.raw(" ")
		w.lex("path", "", d.Path, d.Path)
		w.nl()
	case "P":
		w.lex("directive", "", "P", "")
		w.raw(" ")
		w.lex("date", "P", d.Date.String(), "")
		w.raw(" ")
		w.lex("commodity", "P", quoteIfNeeded(d.Sample.Form+"x", d.Symbol), d.Symbol)
		w.raw(" ")
		w.amount(d.Sample, "price")
		w.nl()
	case "Y":
		w.lex("directive", "", d.KeywordY, "")
		w.raw(" ")
		w.lex("number", "year", fmt.Sprintf("%d", d.Year), "")
		w.nl()
	case "D":
		w.lex("directive", "", "D", "")
		w.raw(" ")
		w.amount(d.Sample, "default")
		w.nl()
	}
}

// Render produces the text and the lexeme table of a journal model.
func (j *MJournal) Render() *Rendered {
	out := &Rendered{}
	w := &lineWriter{out: out, eol: j.EOL, pidx: -1}
	for i, e := range j.Entries {
		w.entry = -1
		switch e.Gap {
		case "one":
			if i > 0 {
				w.nl()
			}
		case "multi":
			for k := 0; k < e.GapN; k++ {
				w.nl()
			}
		case "blanks":
			w.raw(strings.Repeat(" ", e.GapN))
			w.nl()
		}
		w.entry = i
		e.Line0 = w.line
		switch e.Kind {
		case "tx":
			w.tx(e.Tx)
		case "dir":
			w.dir(e.Dir)
		case "comment":
			w.comment(e.Comment)
			w.nl()
		}
		e.Line1 = w.line - 1
	}
	text := w.all.String()
	if !j.FinalNewline && strings.HasSuffix(text, j.EOL) {
		text = text[:len(text)-len(j.EOL)]
	}
	out.Text = text
	return out
}

// AllFeats returns the sorted union of entry and journal features.
func (j *MJournal) AllFeats() []string {
	m := map[string]bool{}
	for _, f := range j.Feats {
		m[f] = true
	}
	for _, e := range j.Entries {
		for _, f := range e.Feats {
			m[f] = true
		}
	}
	var out []string
	for f := range m {
		out = append(out, f)
	}
	sort.Strings(out)
	return out
}
