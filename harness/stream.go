package zv

import (
	"context"
	"encoding/json"
	"fmt"
	"os"
	"path/filepath"
	"sort"
	"strings"

	"go.lsp.dev/protocol"
)

// A serial stream of notifications and requests over a small workspace (C14, also C11/C15).

type wsFile struct {
	Name     string
	Variants []string
}

// streamFiles builds the on-disk fixture: main includes a and b; a may include c.
func streamFiles(r *RNG) []wsFile {
	accts := []string{"assets:cash", "assets:bank", "expenses:food", "expenses:rent", "income:salary", "liabilities:card", "misc:stuff"}
	payees := []string{"Grocer", "Landlord", "Employer", "Café é", "Pizza 🍕"}
	cm := []string{"USD", "EUR", "$"}
	tx := func(k int) string {
		a, b := Pick(r, accts), Pick(r, accts)
		c := Pick(r, cm)
		amt := fmt.Sprintf("%d %s", 5+r.Intn(90), c)
		if c == "$" {
			amt = fmt.Sprintf("$%d", 5+r.Intn(90))
		}
		bal := ""
		if r.Chance(1, 4) {
			bal = fmt.Sprintf("    %s  1 %s\n", Pick(r, accts), Pick(r, []string{"USD", "EUR"}))
		}
		return fmt.Sprintf("2019-%02d-%02d %s  ; trip:%s\n    %s  %s\n%s    %s\n\n", 1+r.Intn(12), 1+r.Intn(28), Pick(r, payees), Pick(r, []string{"alpha", "beta"}), a, amt, bal, b)
	}
	body := func(n int) string {
		var sb strings.Builder
		for i := 0; i < n; i++ {
			sb.WriteString(tx(i))
		}
		return sb.String()
	}
	var files []wsFile
	mk := func(name string, head func(v int) string) {
		f := wsFile{Name: name}
		for v := 0; v < 5; v++ {
			f.Variants = append(f.Variants, head(v)+body(r.Range(1, 4)))
		}
		files = append(files, f)
	}
	mk("main.journal", func(v int) string {
		h := "account assets:cash\ncommodity USD\n"
		if v%2 == 0 {
			h += "account misc\n"
		}
		h += "include a.journal\n"
		if v != 3 {
			h += "include b.journal\n"
		}
		return h + "\n"
	})
	mk("a.journal", func(v int) string {
		h := "commodity 1,000.00 EUR\n"
		if v >= 2 {
			h += "include c.journal\n"
		}
		return h + "\n"
	})
	mk("b.journal", func(v int) string {
		if v == 1 {
			return "account expenses:food\n\n"
		}
		return "\n"
	})
	mk("c.journal", func(v int) string { return "D $1,000.00\n\n" })
	return files
}

func writeStreamFiles(dir string, files []wsFile) {
	os.MkdirAll(dir, 0o755)
	for _, f := range files {
		os.WriteFile(filepath.Join(dir, f.Name), []byte(f.Variants[0]), 0o644)
	}
}

type streamMsg struct {
	Kind    string `json:"kind"` // open change save close cfg req
	Doc     int    `json:"doc"`
	Variant int    `json:"variant,omitempty"`
	Ranged  bool   `json:"ranged,omitempty"`
	Req     string `json:"req,omitempty"`
	Line    int    `json:"line,omitempty"`
	Char    int    `json:"char,omitempty"`
	Cfg     any    `json:"cfg,omitempty"`
	Disk    bool   `json:"disk,omitempty"` // save also writes the buffer to disk
}

var reqKinds = []string{"completion", "hover", "definition", "references", "rename", "prepareRename", "documentSymbol", "workspaceSymbol", "foldingRange", "documentLink", "formatting", "semanticFull", "semanticRange", "semanticDelta", "inlineCompletion", "codeAction"}

// cfgPayload produces a configuration answer from a small space of settings.
func cfgPayload(r *RNG, dir string) any {
	m := map[string]any{}
	switch r.Intn(6) {
	case 0:
		m["completion"] = map[string]any{"maxResults": r.Range(1, 20), "fuzzyMatching": r.Bool()}
	case 1:
		m["formatting"] = map[string]any{"indentSize": r.Range(1, 8), "alignAmounts": r.Bool()}
	case 2:
		m["cli"] = map[string]any{"path": filepath.Join(dir, fmt.Sprintf("no-such-hledger-%d", r.Intn(3)))}
	case 3:
		m["limits"] = map[string]any{"maxIncludeDepth": r.Range(1, 5), "maxFileSizeBytes": r.Range(100, 100000)}
	case 4:
		m["diagnostics"] = map[string]any{"undeclaredAccounts": r.Bool(), "undeclaredCommodities": r.Bool(), "unbalancedTransactions": r.Bool()}
	default:
		m["features"] = map[string]any{"inlineCompletion": r.Bool(), "diagnostics": r.Bool()}
	}
	return m
}

// genStream generates a serial stream; texts are tracked so that positions are meaningful.
func genStream(r *RNG, files []wsFile, n int, withCfg bool, dir string) []streamMsg {
	open := make([]bool, len(files))
	cur := make([]int, len(files))
	var out []streamMsg
	for len(out) < n {
		d := r.Intn(len(files))
		if !open[d] {
			out = append(out, streamMsg{Kind: "open", Doc: d, Variant: cur[d]})
			open[d] = true
			continue
		}
		switch x := r.Intn(20); {
		case x < 6:
			v := r.Intn(len(files[d].Variants))
			cur[d] = v
			out = append(out, streamMsg{Kind: "change", Doc: d, Variant: v, Ranged: r.Bool()})
		case x == 6:
			out = append(out, streamMsg{Kind: "save", Doc: d, Disk: r.Bool(), Variant: cur[d]})
		case x == 7:
			out = append(out, streamMsg{Kind: "close", Doc: d})
			open[d] = false
		case x == 8 && withCfg:
			out = append(out, streamMsg{Kind: "cfg", Cfg: cfgPayload(r, dir)})
		default:
			text := files[d].Variants[cur[d]]
			lines := strings.Split(text, "\n")
			l := r.Intn(len(lines))
			ch := 0
			if len(lines[l]) > 0 {
				ch = r.Intn(u16len(lines[l]) + 1)
			}
			out = append(out, streamMsg{Kind: "req", Doc: d, Req: Pick(r, reqKinds), Line: l, Char: ch})
		}
	}
	return out
}

// execMsg sends one message to the session; for requests it returns the canonical response.
func execMsg(s *Session, files []wsFile, m streamMsg, lastTokenID map[int]string) (resp string, isReq bool) {
	ctx := context.Background()
	if m.Kind == "cfg" {
		s.Stub.SetConfigAnswers(m.Cfg)
		s.Srv.DidChangeConfiguration(ctx, &protocol.DidChangeConfigurationParams{})
		return "", false
	}
	uri := s.URI(files[m.Doc].Name)
	id := protocol.TextDocumentIdentifier{URI: uri}
	switch m.Kind {
	case "open":
		s.Open(uri, files[m.Doc].Variants[m.Variant])
		return "", false
	case "change":
		text := files[m.Doc].Variants[m.Variant]
		if m.Ranged {
			// a ranged change that replaces everything (end far past the document end)
			s.Change(uri, []protocol.TextDocumentContentChangeEvent{{Range: protocol.Range{Start: protocol.Position{Line: 0, Character: 0}, End: protocol.Position{Line: 100000, Character: 0}}, Text: text}})
		} else {
			s.ChangeFull(uri, text)
		}
		return "", false
	case "save":
		if m.Disk {
			os.WriteFile(s.Path(files[m.Doc].Name), []byte(files[m.Doc].Variants[m.Variant]), 0o644)
		}
		s.Save(uri)
		return "", false
	case "close":
		s.Close(uri)
		return "", false
	}
	pos := protocol.TextDocumentPositionParams{TextDocument: id, Position: protocol.Position{Line: uint32(m.Line), Character: uint32(m.Char)}}
	var v any
	switch m.Req {
	case "completion":
		cl, _ := s.Srv.Completion(ctx, &protocol.CompletionParams{TextDocumentPositionParams: pos})
		v = cl
		if cl != nil && UnorderedCompletion {
			// the order among equally ranked items depends on map iteration (C15's subject)
			var keys []string
			for _, it := range cl.Items {
				it.SortText = ""
				keys = append(keys, CanonJSON(it))
			}
			sortStrings(keys)
			v = keys
		}
	case "hover":
		v, _ = s.Srv.Hover(ctx, &protocol.HoverParams{TextDocumentPositionParams: pos})
	case "definition":
		v, _ = s.Srv.Definition(ctx, &protocol.DefinitionParams{TextDocumentPositionParams: pos})
	case "references":
		v, _ = s.Srv.References(ctx, &protocol.ReferenceParams{TextDocumentPositionParams: pos, Context: protocol.ReferenceContext{IncludeDeclaration: m.Char%2 == 0}})
	case "rename":
		v, _ = s.Srv.Rename(ctx, &protocol.RenameParams{TextDocumentPositionParams: pos, NewName: "renamed:thing"})
	case "prepareRename":
		v, _ = s.Srv.PrepareRename(ctx, &protocol.PrepareRenameParams{TextDocumentPositionParams: pos})
	case "documentSymbol":
		v, _ = s.Srv.DocumentSymbol(ctx, &protocol.DocumentSymbolParams{TextDocument: id})
	case "workspaceSymbol":
		ws, _ := s.Srv.WorkspaceSymbol(ctx, &protocol.WorkspaceSymbolParams{Query: ""})
		// the order over open documents is C15's subject: compare as a set here
		var keys []string
		for _, x := range ws {
			keys = append(keys, CanonJSON(x))
		}
		sortStrings(keys)
		v = keys
	case "foldingRange":
		v, _ = s.Srv.FoldingRanges(ctx, &protocol.FoldingRangeParams{TextDocumentPositionParams: protocol.TextDocumentPositionParams{TextDocument: id}})
	case "documentLink":
		v, _ = s.Srv.DocumentLink(ctx, &protocol.DocumentLinkParams{TextDocument: id})
	case "formatting":
		v, _ = s.Srv.Format(ctx, &protocol.DocumentFormattingParams{TextDocument: id})
	case "semanticFull":
		t, _ := s.Srv.SemanticTokensFull(ctx, &protocol.SemanticTokensParams{TextDocument: id})
		if t != nil {
			lastTokenID[m.Doc] = t.ResultID
			v = t.Data
		}
	case "semanticRange":
		t, _ := s.Srv.SemanticTokensRange(ctx, &protocol.SemanticTokensRangeParams{TextDocument: id, Range: protocol.Range{Start: protocol.Position{Line: uint32(m.Line)}, End: protocol.Position{Line: uint32(m.Line + 3)}}})
		if t != nil {
			v = t.Data
		}
	case "semanticDelta":
		t, _ := s.Srv.SemanticTokensFullDelta(ctx, &protocol.SemanticTokensDeltaParams{TextDocument: id, PreviousResultID: lastTokenID[m.Doc]})
		switch x := t.(type) {
		case *protocol.SemanticTokens:
			lastTokenID[m.Doc] = x.ResultID
			v = map[string]any{"full": x.Data}
		case *protocol.SemanticTokensDelta:
			lastTokenID[m.Doc] = x.ResultID
			v = map[string]any{"edits": x.Edits}
		}
	case "inlineCompletion":
		pj, _ := json.Marshal(map[string]any{"textDocument": id, "position": pos.Position, "context": map[string]any{"triggerKind": 1}})
		v, _ = s.Srv.InlineCompletion(ctx, pj)
	case "codeAction":
		v, _ = s.Srv.CodeAction(ctx, &protocol.CodeActionParams{TextDocument: id})
	}
	out := CanonJSON(v)
	out = strings.ReplaceAll(out, s.Dir, "DIR")
	return out, true
}

// UnorderedCompletion makes execMsg compare completion lists as sets (C14 replay).
var UnorderedCompletion = false

func sortStrings(s []string) { sort.Strings(s) }
