package zv

import (
	"context"
	"encoding/json"
	"fmt"
	"os"
	"os/exec"
	"path/filepath"
	"sort"
	"strconv"
	"strings"

	"go.lsp.dev/protocol"
)

// C15 Responses are a function of workspace state (determinism).

type c15State struct{ bad [][]string }

func c15Counts(tier string) int64 {
	if tier == "thorough" {
		return 1200
	}
	return 80
}

func c15Reps(tier string) (same, fresh, procs int) {
	if tier == "thorough" {
		return 50, 50, 8
	}
	return 50, 12, 4
}

func init() {
	Register(&Prop{
		ID:          "C15",
		Gomaxprocs:  2,
		Rule:        "workspaces of 3-4 journals from G with shared accounts, payees (with different posting templates in different files), commodities (declared with different formats in two files) and tags, transactions out of balance in >=2 commodities, all files open; a fixed request list (published diagnostics of every document, completion in account/payee/commodity/tag-name/tag-value context with an empty fragment so that ties in the ranking occur, references and definition on shared symbols, document and workspace symbols, inline completion for a payee with two templates, hover, formatting) is answered 50 times by one server, by 12 (quick) / 50 (thorough) fresh servers in the same process, by one server that reached the same texts through an edit (include directives of the root re-ordered), by four servers that open and then re-send (unchanged) all documents plus two documents outside the include tree (one including a file of declarations, one using the names declared there) in forward, reverse and two random orders, whose final diagnostics per document must agree, and by 4/8 fresh processes (child processes of the harness; Go seeds map iteration per map and per process). Oracle: exactly one distinct canonical serialisation per request. Excluded: semantic-token result ids, the three clock-dependent date items. Non-trivial = every workspace (>=2 files share names); distinct by workspace hash.",
		Notes:       []string{"history dates are <= 2019 so that clock-dependent completion items cannot collide with them"},
		Cases:       c15Counts,
		MustObserve: []string{"workspaces", "requests", "responses_compared", "fresh_processes"},
		Setup:       func(c *Ctx) { c.State = &c15State{bad: c.Known.BadFeatureSets("C03", "C15")} },
		RunCase:     runC15,
	})
	RegisterAux("c15", c15Aux)
}

// c15Workspace builds the workspace of a case (also in the fresh-process child).
func c15Workspace(seed uint64, idx int64, bad [][]string) *WS {
	r := NewRNG(HashStr("C15"), seed, uint64(idx), 0)
	nf := r.Range(3, 4)
	w := genWorkspace(r, bad, WSOpt{Files: nf, Entries: [2]int{3, 5}, Shape: Pick(r, []string{"star", "diamond", "random"}), LF: true})
	w.Root = r.Bool()
	// every file: an entry out of balance in two commodities, a shared payee with a file-specific
	// template, a shared commodity declared with a file-specific format
	for f := range w.Names {
		j := w.Journals[f]
		raw := []string{
			fmt.Sprintf("commodity 1%s000%s00 EUR", []string{",", ".", " "}[f%3], []string{".", ",", ","}[f%3]),
			"",
			fmt.Sprintf("2018-01-11 Shared Shop  ; trip:t%d, kind:k%d", f%2, f),
			fmt.Sprintf("    expenses:shared:f%d  %d EUR", f, 10+f),
			"    assets:shared:cash",
			"",
			"2018-01-12 Unbalanced",
			"    assets:shared:cash  1 USD",
			"    assets:shared:cash  2 EUR",
			"    assets:shared:cash  3 GBP",
		}
		_ = j
		w.Texts[f] = w.Texts[f] + "\n" + strings.Join(raw, "\n") + "\n"
	}
	// probe lines at the end of the root document
	w.Texts[0] += "\n2018-12-30 \n    \n    assets:shared:cash  1 \n    assets:shared:cash  1 USD  ; \n    assets:shared:cash  1 USD  ; trip:\n\n2018-12-31 Shared Shop\n\n"
	return w
}

type c15Req struct {
	Name string
	Do   func(s *Session, w *WS) string
}

func c15Requests(w *WS) []c15Req {
	ctx := context.Background()
	mainLines := strings.Split(w.Texts[0], "\n")
	find := func(prefix string) int {
		for i := len(mainLines) - 1; i >= 0; i-- {
			if strings.HasPrefix(mainLines[i], prefix) {
				return i
			}
		}
		return 0
	}
	lHdr := find("2018-12-30 ")
	lInline := find("2018-12-31 Shared Shop") + 1
	pos := func(s *Session, f, line, ch int) protocol.TextDocumentPositionParams {
		return protocol.TextDocumentPositionParams{TextDocument: protocol.TextDocumentIdentifier{URI: w.URI(s, f)}, Position: protocol.Position{Line: uint32(line), Character: uint32(ch)}}
	}
	norm := func(s *Session, v any) string { return strings.ReplaceAll(CanonJSON(v), s.Dir, "DIR") }
	completion := func(name string, line, ch int) c15Req {
		return c15Req{name, func(s *Session, w *WS) string {
			cl, _ := s.Srv.Completion(ctx, &protocol.CompletionParams{TextDocumentPositionParams: pos(s, 0, line, ch)})
			if cl == nil {
				return "null"
			}
			var items []protocol.CompletionItem
			for _, it := range cl.Items {
				if it.Detail == "today" || it.Detail == "yesterday" || it.Detail == "tomorrow" {
					continue
				}
				items = append(items, it)
			}
			return norm(s, items)
		}}
	}
	reqs := []c15Req{
		completion("completion(payee)", lHdr, 11),
		completion("completion(account)", lHdr+1, 4),
		completion("completion(commodity)", lHdr+2, len("    assets:shared:cash  1 ")),
		completion("completion(tagname)", lHdr+3, len("    assets:shared:cash  1 USD  ; ")),
		completion("completion(tagvalue)", lHdr+4, len("    assets:shared:cash  1 USD  ; trip:")),
		{"workspaceSymbol", func(s *Session, w *WS) string {
			v, _ := s.Srv.WorkspaceSymbol(ctx, &protocol.WorkspaceSymbolParams{Query: ""})
			return norm(s, v)
		}},
		{"inlineCompletion", func(s *Session, w *WS) string {
			pj, _ := json.Marshal(map[string]any{"textDocument": protocol.TextDocumentIdentifier{URI: w.URI(s, 0)}, "position": protocol.Position{Line: uint32(lInline), Character: 0}, "context": map[string]any{"triggerKind": 1}})
			v, _ := s.Srv.InlineCompletion(ctx, pj)
			return norm(s, v)
		}},
	}
	for f := range w.Names {
		f := f
		lines := strings.Split(w.Texts[f], "\n")
		lShop, lAcct := 0, 0
		for i, l := range lines {
			if strings.Contains(l, " Shared Shop  ;") {
				lShop = i
			}
			if strings.HasPrefix(l, "    assets:shared:cash  1 USD") && lAcct == 0 {
				lAcct = i
			}
		}
		reqs = append(reqs,
			c15Req{fmt.Sprintf("documentSymbol(%s)", w.Names[f]), func(s *Session, w *WS) string {
				v, _ := s.Srv.DocumentSymbol(ctx, &protocol.DocumentSymbolParams{TextDocument: protocol.TextDocumentIdentifier{URI: w.URI(s, f)}})
				return norm(s, v)
			}},
			c15Req{fmt.Sprintf("references(account,%s)", w.Names[f]), func(s *Session, w *WS) string {
				v, _ := s.Srv.References(ctx, &protocol.ReferenceParams{TextDocumentPositionParams: pos(s, f, lAcct, 8), Context: protocol.ReferenceContext{IncludeDeclaration: true}})
				return norm(s, v)
			}},
			c15Req{fmt.Sprintf("definition(payee,%s)", w.Names[f]), func(s *Session, w *WS) string {
				v, _ := s.Srv.Definition(ctx, &protocol.DefinitionParams{TextDocumentPositionParams: pos(s, f, lShop, 13)})
				return norm(s, v)
			}},
			c15Req{fmt.Sprintf("definition(account,%s)", w.Names[f]), func(s *Session, w *WS) string {
				v, _ := s.Srv.Definition(ctx, &protocol.DefinitionParams{TextDocumentPositionParams: pos(s, f, lAcct, 8)})
				return norm(s, v)
			}},
			c15Req{fmt.Sprintf("definition(commodity,%s)", w.Names[f]), func(s *Session, w *WS) string {
				v, _ := s.Srv.Definition(ctx, &protocol.DefinitionParams{TextDocumentPositionParams: pos(s, f, lAcct, len("    assets:shared:cash  1 U"))})
				return norm(s, v)
			}},
			c15Req{fmt.Sprintf("hover(account,%s)", w.Names[f]), func(s *Session, w *WS) string {
				v, _ := s.Srv.Hover(ctx, &protocol.HoverParams{TextDocumentPositionParams: pos(s, f, lAcct, 8)})
				return norm(s, v)
			}},
			c15Req{fmt.Sprintf("hover(tag,%s)", w.Names[f]), func(s *Session, w *WS) string {
				v, _ := s.Srv.Hover(ctx, &protocol.HoverParams{TextDocumentPositionParams: pos(s, f, lShop, len("2018-01-11 Shared Shop  ; tr"))})
				return norm(s, v)
			}},
			c15Req{fmt.Sprintf("rename(account,%s)", w.Names[f]), func(s *Session, w *WS) string {
				v, _ := s.Srv.Rename(ctx, &protocol.RenameParams{TextDocumentPositionParams: pos(s, f, lAcct, 8), NewName: "assets:renamed"})
				return norm(s, v)
			}},
			c15Req{fmt.Sprintf("rename(payee,%s)", w.Names[f]), func(s *Session, w *WS) string {
				v, _ := s.Srv.Rename(ctx, &protocol.RenameParams{TextDocumentPositionParams: pos(s, f, lShop, 13), NewName: "Renamed Shop"})
				return norm(s, v)
			}},
			c15Req{fmt.Sprintf("references(commodity,%s)", w.Names[f]), func(s *Session, w *WS) string {
				v, _ := s.Srv.References(ctx, &protocol.ReferenceParams{TextDocumentPositionParams: pos(s, f, lAcct, len("    assets:shared:cash  1 U")), Context: protocol.ReferenceContext{IncludeDeclaration: true}})
				return norm(s, v)
			}},
			c15Req{fmt.Sprintf("foldingRange(%s)", w.Names[f]), func(s *Session, w *WS) string {
				v, _ := s.Srv.FoldingRanges(ctx, &protocol.FoldingRangeParams{TextDocumentPositionParams: protocol.TextDocumentPositionParams{TextDocument: protocol.TextDocumentIdentifier{URI: w.URI(s, f)}}})
				return norm(s, v)
			}},
			c15Req{fmt.Sprintf("documentLink(%s)", w.Names[f]), func(s *Session, w *WS) string {
				v, _ := s.Srv.DocumentLink(ctx, &protocol.DocumentLinkParams{TextDocument: protocol.TextDocumentIdentifier{URI: w.URI(s, f)}})
				return norm(s, v)
			}},
			c15Req{fmt.Sprintf("semanticTokens(%s)", w.Names[f]), func(s *Session, w *WS) string {
				v, _ := s.Srv.SemanticTokensFull(ctx, &protocol.SemanticTokensParams{TextDocument: protocol.TextDocumentIdentifier{URI: w.URI(s, f)}})
				if v == nil {
					return "null"
				}
				return norm(s, v.Data)
			}},
			c15Req{fmt.Sprintf("codeAction(%s)", w.Names[f]), func(s *Session, w *WS) string {
				v, _ := s.Srv.CodeAction(ctx, &protocol.CodeActionParams{TextDocument: protocol.TextDocumentIdentifier{URI: w.URI(s, f)},
					Range: protocol.Range{Start: protocol.Position{Line: uint32(lAcct), Character: 0}, End: protocol.Position{Line: uint32(lAcct) + 2, Character: 0}}})
				return norm(s, v)
			}},
			c15Req{fmt.Sprintf("formatting(%s)", w.Names[f]), func(s *Session, w *WS) string {
				v, _ := s.Srv.Format(ctx, &protocol.DocumentFormattingParams{TextDocument: protocol.TextDocumentIdentifier{URI: w.URI(s, f)}})
				return norm(s, v)
			}},
		)
	}
	return reqs
}

// c15Serve starts a server on the workspace, opens every file and answers the request list.
func c15Serve(dir string, w *WS) (map[string]string, bool) {
	s := NewSession(dir, SessOpt{Root: w.Root})
	s.Drain()
	out := map[string]string{}
	for f := range w.Names {
		pub, ok := s.OpenWait(w.URI(s, f), w.Texts[f])
		if !ok {
			return nil, false
		}
		var ds []string
		for _, d := range pub.Diagnostics {
			ds = append(ds, DiagKey(d))
		}
		// the order of the diagnostics of one document is part of the notification: keep it
		out[fmt.Sprintf("diagnostics(%s)", w.Names[f])] = strings.Join(ds, "\n")
	}
	s.Drain()
	for _, rq := range c15Requests(w) {
		out[rq.Name] = rq.Do(s, w)
	}
	return out, true
}

func runC15(c *Ctx, idx int64) {
	st := c.State.(*c15State)
	w := c15Workspace(c.Seed, idx, st.bad)
	dir := filepath.Join(c.Dir, fmt.Sprintf("w%d", idx), "ws")
	os.MkdirAll(dir, 0o755)
	defer os.RemoveAll(filepath.Dir(dir))
	w.Write(dir)
	same, fresh, procs := c15Reps(c.Tier)
	c.Count("workspaces", 1)
	c.Nontrivial(HashStr(w.String()))
	distinct := map[string]map[string]string{} // request -> serialisation -> where first seen
	note := func(where string, res map[string]string) {
		for k, v := range res {
			if distinct[k] == nil {
				distinct[k] = map[string]string{}
			}
			if _, ok := distinct[k][v]; !ok {
				distinct[k][v] = where
			}
			c.Count("responses_compared", 1)
		}
	}
	// (a) one server, repeated requests
	s := NewSession(dir, SessOpt{Root: w.Root})
	s.Drain()
	for f := range w.Names {
		s.OpenWait(w.URI(s, f), w.Texts[f])
	}
	s.Drain()
	reqs := c15Requests(w)
	c.Count("requests", int64(len(reqs)))
	for rep := 0; rep < same; rep++ {
		res := map[string]string{}
		for _, rq := range reqs {
			res[rq.Name] = rq.Do(s, w)
		}
		note(fmt.Sprintf("same server, repetition %d", rep), res)
	}
	// (b) fresh servers in this process
	for rep := 0; rep < fresh; rep++ {
		res, ok := c15Serve(dir, w)
		if !ok {
			c.Inconclusive("fresh server did not publish")
			return
		}
		note(fmt.Sprintf("fresh server %d", rep), res)
	}
	// (b') a server that arrives at the same texts through an edit history: the root document is
	// first opened with its include directives in reverse order, then changed to the final text
	{
		lines := strings.Split(w.Texts[0], "\n")
		var at []int
		for i, l := range lines {
			if strings.HasPrefix(l, "include ") {
				at = append(at, i)
			}
		}
		if len(at) >= 2 {
			rev := append([]string(nil), lines...)
			for k, i := range at {
				rev[i] = lines[at[len(at)-1-k]]
			}
			// the server starts on a disk state with the re-ordered root, the editor then holds the final text
			hdir := filepath.Join(filepath.Dir(dir), "hist")
			os.MkdirAll(hdir, 0o755)
			w.Write(hdir)
			os.WriteFile(filepath.Join(hdir, w.Names[0]), []byte(strings.Join(rev, "\n")), 0o644)
			hs := NewSession(hdir, SessOpt{Root: w.Root})
			hs.Drain()
			// from here on the files are those every other server sees
			os.WriteFile(filepath.Join(hdir, w.Names[0]), []byte(w.Texts[0]), 0o644)
			for f := len(w.Names) - 1; f >= 0; f-- {
				hs.OpenWait(w.URI(hs, f), w.Texts[f])
			}
			hs.Drain()
			if r := NewRNG(c.Seed, uint64(idx), 77); r.Bool() {
				// and once more through a change notification
				hs.ChangeFull(w.URI(hs, 0), strings.Join(rev, "\n"))
				hs.Drain()
				hs.ChangeFull(w.URI(hs, 0), w.Texts[0])
				hs.Drain()
			}
			res := map[string]string{}
			for f := range w.Names {
				if pub := hs.Stub.LastPub(w.URI(hs, f)); pub != nil && f == 0 {
					var ds []string
					for _, d := range pub.Diagnostics {
						ds = append(ds, DiagKey(d))
					}
					res[fmt.Sprintf("diagnostics(%s)", w.Names[f])] = strings.Join(ds, "\n")
				}
			}
			for _, rq := range reqs {
				res[rq.Name] = rq.Do(hs, w)
			}
			c.Count("servers_with_edit_history", 1)
			note("server that reached the same texts through an edit (include directives re-ordered)", res)
		}
	}
	// (b'') the same documents opened and re-sent (unchanged text) in different orders: the last
	// diagnostics of every document are a function of the open texts, not of the order in which the
	// analyses ran. Two further documents are outside the root's include tree: one includes a file
	// of declarations, the other uses the names declared there without including it.
	{
		odir := filepath.Join(filepath.Dir(dir), "order", "ws")
		os.MkdirAll(odir, 0o755)
		w.Write(odir)
		exNames := []string{"zz-scratch.journal", "zz-project.journal"}
		exTexts := []string{
			"2018-03-01 scratch\n    project:beta  1 XYZ\n    assets:shared:cash\n",
			"include zz-projdecl.journal\n\n2018-03-02 project\n    project:beta  2 XYZ\n    project:alpha\n",
		}
		os.WriteFile(filepath.Join(odir, "zz-projdecl.journal"), []byte("account project:beta\naccount project:alpha\ncommodity 1.00 XYZ\n"), 0o644)
		for i, n := range exNames {
			os.WriteFile(filepath.Join(odir, n), []byte(exTexts[i]), 0o644)
		}
		names := append(append([]string(nil), w.Names...), exNames...)
		texts := append(append([]string(nil), w.Texts...), exTexts...)
		n := len(names)
		fwd := make([]int, n)
		rev := make([]int, n)
		for i := range fwd {
			fwd[i], rev[i] = i, n-1-i
		}
		pr := NewRNG(c.Seed, uint64(idx), 91)
		orders := [][]int{fwd, rev, pr.Perm(n), pr.Perm(n)}
		for oi, ord := range orders {
			ps := NewSession(odir, SessOpt{Root: w.Root})
			ps.Drain()
			for _, i := range ord {
				ps.OpenWait(ps.URI(names[i]), texts[i])
			}
			ps.Drain()
			resend := ord
			if oi == 3 {
				resend = orders[2] // opened in one order, re-sent in another
			}
			for _, i := range resend {
				u := ps.URI(names[i])
				have := ps.Stub.PubCount(u)
				ps.ChangeFull(u, texts[i])
				ps.WaitPub(u, have)
			}
			ps.Drain()
			res := map[string]string{}
			for i := range names {
				var ds []string
				if pub := ps.Stub.LastPub(ps.URI(names[i])); pub != nil {
					for _, d := range pub.Diagnostics {
						ds = append(ds, DiagKey(d))
					}
				}
				res[fmt.Sprintf("diagnostics-after-resend(%s)", names[i])] = strings.Join(ds, "\n")
			}
			c.Count("servers_with_permuted_analysis_order", 1)
			note(fmt.Sprintf("server that opened and re-sent the documents in the order %v", ord), res)
		}
	}
	// (c) fresh processes
	exe := os.Getenv("VERIF_SELF_EXE")
	for p := 0; p < procs && exe != ""; p++ {
		cmd := exec.Command(exe, "aux", "c15", strconv.FormatUint(c.Seed, 10), strconv.FormatInt(idx, 10), dir, os.Getenv("VERIF_KNOWN"))
		cmd.Env = append(os.Environ(), "GOMAXPROCS=2")
		outb, err := cmd.Output()
		if err != nil {
			c.Inconclusive("fresh process failed: " + err.Error())
			return
		}
		var res map[string]string
		if json.Unmarshal(outb, &res) != nil {
			c.Inconclusive("fresh process output unreadable")
			return
		}
		c.Count("fresh_processes", 1)
		note(fmt.Sprintf("fresh process %d", p), res)
	}
	var names []string
	for k := range distinct {
		names = append(names, k)
	}
	sort.Strings(names)
	for _, k := range names {
		if len(distinct[k]) > 1 {
			var vs, wh []string
			for v, where := range distinct[k] {
				vs = append(vs, v)
				wh = append(wh, where)
			}
			kind := k
			if i := strings.IndexByte(kind, '('); i > 0 {
				if strings.HasPrefix(kind, "completion") {
					// keep the slot
				} else {
					kind = kind[:i]
				}
			}
			c.Violate(Violation{Kind: "nondeterministic(" + kind + ")", Sig: "C15:nondeterministic(" + kind + ")", Pool: "clean",
				Detail:  fmt.Sprintf("%s has %d distinct serialisations for the same workspace (first seen: %v): %s  VERSUS  %s", k, len(distinct[k]), wh, oneLine(vs[0], 300), oneLine(vs[1], 300)),
				Witness: map[string]any{"workspace": w.String(), "workspace_root": w.Root, "request": k, "variants": vs}})
		}
	}
	if idx%13 == 0 {
		c.Sample(map[string]any{"case": idx, "files": w.Names, "workspace_root": w.Root, "requests": names, "repetitions": fmt.Sprintf("%d same-server, %d fresh servers, %d fresh processes", same, fresh, procs)})
	}
}

// c15Aux: fresh-process child: vcheck aux c15 <seed> <idx> <dir> <known>
func c15Aux(args []string) int {
	if len(args) < 4 {
		return 2
	}
	seed, _ := strconv.ParseUint(args[0], 10, 64)
	idx, _ := strconv.ParseInt(args[1], 10, 64)
	kn, err := LoadKnown(args[3])
	if err != nil {
		return 2
	}
	os.Setenv("HOME", filepath.Dir(args[2]))
	w := c15Workspace(seed, idx, kn.BadFeatureSets("C03", "C15"))
	res, ok := c15Serve(args[2], w)
	if !ok {
		return 3
	}
	b, _ := json.Marshal(res)
	os.Stdout.Write(b)
	return 0
}
