package zv

import (
	"os"
	"testing"
)

func TestHarnessStackCrash(t *testing.T) {
	b, err := os.ReadFile("testdata_stackcrash.txt")
	if err != nil {
		t.Skip("no sample")
	}
	if !harnessStackCrash(string(b)) {
		t.Fatal("sample of a runtime.Stack crash in the harness not recognised")
	}
	if harnessStackCrash("SIGSEGV: segmentation violation\nPC=0x1\n\ngoroutine 5 [running]:\ngithub.com/juev/hledger-lsp/internal/parser.Parse()\n\n") {
		t.Fatal("a crash in repository code taken for a harness crash")
	}
}
