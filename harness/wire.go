package zv

import (
	"bufio"
	"bytes"
	"encoding/json"
	"fmt"
	"io"
	"os"
	"os/exec"
	"strconv"
	"strings"
	"sync"
	"syscall"
	"time"
)

// Wire drives the product binary over stdio with a hand-written LSP framing layer, so the
// bytes on the wire are exactly the ones we choose.

type wireMsg struct {
	ID     *json.RawMessage `json:"id,omitempty"`
	Method string           `json:"method,omitempty"`
	Params json.RawMessage  `json:"params,omitempty"`
	Result json.RawMessage  `json:"result,omitempty"`
	Error  json.RawMessage  `json:"error,omitempty"`
}

type Wire struct {
	cmd    *exec.Cmd
	in     io.WriteCloser
	msgs   chan wireMsg
	nextID int
	mu     sync.Mutex
	Notifs []wireMsg // server→client notifications seen so far
	Stderr *bytes.Buffer
	dead   chan struct{}
	CfgAns any // answer to workspace/configuration requests
}

func StartWire(exe, dir string, env []string) (*Wire, error) {
	cmd := exec.Command(exe)
	cmd.Dir = dir
	cmd.Env = env
	in, err := cmd.StdinPipe()
	if err != nil {
		return nil, err
	}
	out, err := cmd.StdoutPipe()
	if err != nil {
		return nil, err
	}
	w := &Wire{cmd: cmd, in: in, msgs: make(chan wireMsg, 256), Stderr: &bytes.Buffer{}, dead: make(chan struct{})}
	cmd.Stderr = &limitedWriter{w: w.Stderr, max: 1 << 20}
	if err := cmd.Start(); err != nil {
		return nil, err
	}
	go func() {
		rd := bufio.NewReaderSize(out, 1<<16)
		for {
			n := -1
			for {
				line, err := rd.ReadString('\n')
				if err != nil {
					close(w.msgs)
					return
				}
				line = strings.TrimRight(line, "\r\n")
				if line == "" {
					break
				}
				if strings.HasPrefix(strings.ToLower(line), "content-length:") {
					n, _ = strconv.Atoi(strings.TrimSpace(line[len("content-length:"):]))
				}
			}
			if n < 0 {
				continue
			}
			buf := make([]byte, n)
			if _, err := io.ReadFull(rd, buf); err != nil {
				close(w.msgs)
				return
			}
			var m wireMsg
			if json.Unmarshal(buf, &m) == nil {
				w.msgs <- m
			}
		}
	}()
	go func() { cmd.Wait(); close(w.dead) }()
	return w, nil
}

type limitedWriter struct {
	w   *bytes.Buffer
	max int
	mu  sync.Mutex
}

func (l *limitedWriter) Write(p []byte) (int, error) {
	l.mu.Lock()
	defer l.mu.Unlock()
	if l.w.Len() < l.max {
		l.w.Write(p)
	}
	return len(p), nil
}

func (w *Wire) sendRaw(body []byte) error {
	hdr := fmt.Sprintf("Content-Length: %d\r\n\r\n", len(body))
	if _, err := io.WriteString(w.in, hdr); err != nil {
		return err
	}
	_, err := w.in.Write(body)
	return err
}

// NotifyRaw sends a notification whose params are already JSON.
func (w *Wire) NotifyRaw(method string, params string) error {
	return w.sendRaw([]byte(fmt.Sprintf(`{"jsonrpc":"2.0","method":%q,"params":%s}`, method, params)))
}

func (w *Wire) Notify(method string, params any) error {
	b, _ := json.Marshal(params)
	return w.NotifyRaw(method, string(b))
}

var ErrWireTimeout = fmt.Errorf("wire: no reply before the watchdog")
var ErrWireDead = fmt.Errorf("wire: server process ended")

// Call sends a request and waits for its response; server→client requests are answered.
func (w *Wire) Call(method string, params any, timeout time.Duration) (json.RawMessage, error) {
	b, _ := json.Marshal(params)
	return w.CallRaw(method, string(b), timeout)
}

func (w *Wire) CallRaw(method, params string, timeout time.Duration) (json.RawMessage, error) {
	w.nextID++
	id := w.nextID
	if err := w.sendRaw([]byte(fmt.Sprintf(`{"jsonrpc":"2.0","id":%d,"method":%q,"params":%s}`, id, method, params))); err != nil {
		return nil, ErrWireDead
	}
	deadline := time.NewTimer(timeout)
	defer deadline.Stop()
	for {
		select {
		case m, ok := <-w.msgs:
			if !ok {
				return nil, ErrWireDead
			}
			if m.Method != "" && m.ID != nil {
				// request from the server (workspace/configuration): answer it
				ans := "null"
				if m.Method == "workspace/configuration" {
					ab, _ := json.Marshal([]any{w.CfgAns})
					ans = string(ab)
				}
				w.sendRaw([]byte(fmt.Sprintf(`{"jsonrpc":"2.0","id":%s,"result":%s}`, string(*m.ID), ans)))
				continue
			}
			if m.Method != "" {
				w.Notifs = append(w.Notifs, m)
				continue
			}
			if m.ID != nil && string(*m.ID) == strconv.Itoa(id) {
				if len(m.Error) > 0 && string(m.Error) != "null" {
					return nil, fmt.Errorf("wire: error response %s", string(m.Error))
				}
				return m.Result, nil
			}
		case <-deadline.C:
			return nil, ErrWireTimeout
		}
	}
}

// CPUSeconds reads user+system CPU time of the server process from /proc.
func (w *Wire) CPUSeconds() float64 {
	b, err := os.ReadFile(fmt.Sprintf("/proc/%d/stat", w.cmd.Process.Pid))
	if err != nil {
		return -1
	}
	s := string(b)
	i := strings.LastIndexByte(s, ')')
	f := strings.Fields(s[i+1:])
	if len(f) < 14 {
		return -1
	}
	ut, _ := strconv.ParseFloat(f[11], 64)
	st, _ := strconv.ParseFloat(f[12], 64)
	return (ut + st) / 100.0
}

func (w *Wire) Alive() bool {
	select {
	case <-w.dead:
		return false
	default:
		return true
	}
}

// Dump asks the runtime for a goroutine dump (SIGQUIT) and returns stderr.
func (w *Wire) Dump() string {
	w.cmd.Process.Signal(syscall.SIGQUIT)
	select {
	case <-w.dead:
	case <-time.After(3 * time.Second):
	}
	return w.Stderr.String()
}

func (w *Wire) Close() {
	w.in.Close()
	select {
	case <-w.dead:
	case <-time.After(2 * time.Second):
		w.cmd.Process.Kill()
		<-w.dead
	}
}

// WireEnv is the sanitised environment of a wire child.
func WireEnv(home string) []string {
	return []string{"HOME=" + home, "PATH=/usr/bin:/bin", "GOTRACEBACK=all"}
}

// InitWire performs initialize/initialized.
func (w *Wire) Init(rootDir string, initOpts any, supportsCfg bool) (json.RawMessage, error) {
	p := map[string]any{"processId": nil, "capabilities": map[string]any{}}
	if supportsCfg {
		p["capabilities"] = map[string]any{"workspace": map[string]any{"configuration": true}}
	}
	if rootDir != "" {
		p["workspaceFolders"] = []any{map[string]any{"uri": "file://" + rootDir, "name": "ws"}}
	}
	if initOpts != nil {
		p["initializationOptions"] = initOpts
	}
	res, err := w.Call("initialize", p, 30*time.Second)
	if err != nil {
		return nil, err
	}
	w.Notify("initialized", map[string]any{})
	return res, nil
}
