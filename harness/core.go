package zv

import (
	"encoding/binary"
	"encoding/json"
	"fmt"
	"os"
	"runtime"
	"runtime/debug"
	"sort"
	"strings"
	"sync/atomic"
	"time"
)

// ---------------------------------------------------------------------------
// Property registry

type Prop struct {
	ID    string
	Race  bool   // shard children run the -race build
	Rule  string // how cases are generated and what counts as non-trivial
	Notes []string
	// Cases returns the number of case indices for a tier.
	Cases func(tier string) int64
	// Exhaustive reports whether a finite sub-space was enumerated completely.
	Exhaustive func(tier string) bool
	// Shards overrides the default number of shard children (0 = default).
	Shards func(tier string) int
	// Setup/Finish run once per shard child.
	Setup  func(c *Ctx)
	Finish func(c *Ctx)
	// RunCase executes one case.
	RunCase func(c *Ctx, idx int64)
	// Gomaxprocs for shard children (0 = 2).
	Gomaxprocs int
	// MinEvents: counters that must be > 0 for the run to be conclusive.
	MustObserve []string
}

var registry = map[string]*Prop{}

func Register(p *Prop) { registry[p.ID] = p }

func Lookup(id string) *Prop { return registry[id] }

func AllIDs() []string {
	var ids []string
	for id := range registry {
		ids = append(ids, id)
	}
	sort.Strings(ids)
	return ids
}

// ---------------------------------------------------------------------------
// Violations and reports

type Violation struct {
	Property string   `json:"property"`
	Sig      string   `json:"sig"`  // signature matched against KNOWN_FINDINGS.txt
	Kind     string   `json:"kind"` // violation kind (DESIGN 3.3)
	Pool     string   `json:"pool"` // clean | known | n/a
	Features []string `json:"features,omitempty"`
	Case     int64    `json:"case"`
	Detail   string   `json:"detail"`
	Witness  any      `json:"witness,omitempty"`
}

type SigStat struct {
	Count int64     `json:"count"`
	First Violation `json:"first"`
}

type ShardReport struct {
	Property     string              `json:"property"`
	Shard        int                 `json:"shard"`
	Evaluations  int64               `json:"evaluations"`
	Counters     map[string]int64    `json:"counters"`
	Samples      []any               `json:"samples"`
	Sigs         map[string]*SigStat `json:"sigs"`
	Inconclusive []string            `json:"inconclusive"`
	Done         bool                `json:"done"`
	hashes       map[uint64]struct{}
}

type Ctx struct {
	Prop      *Prop
	Tier      string
	Seed      uint64
	Shard     int
	NShards   int
	Dir       string // scratch directory of this shard (removed by the parent)
	Known     *Known
	Rep       *ShardReport
	Replay    bool
	curCase   int64
	caseStart int64
	journal   *os.File
	violOut   *os.File
	State     any // per-shard state of the property
}

func (c *Ctx) RNG(idx int64, salt uint64) *RNG {
	return NewRNG(HashStr(c.Prop.ID), c.Seed, uint64(idx), salt)
}

func (c *Ctx) Count(name string, n int64) { c.Rep.Counters[name] += n }

// Nontrivial records the hash of a distinct non-trivial case.
func (c *Ctx) Nontrivial(h uint64) { c.Rep.hashes[h] = struct{}{} }

func (c *Ctx) Sample(v any) {
	if len(c.Rep.Samples) < 3 {
		c.Rep.Samples = append(c.Rep.Samples, v)
	}
}

func (c *Ctx) Inconclusive(reason string) {
	if len(c.Rep.Inconclusive) < 20 {
		c.Rep.Inconclusive = append(c.Rep.Inconclusive, fmt.Sprintf("case %d: %s", c.curCase, reason))
	}
	c.Count("inconclusive", 1)
}

func (c *Ctx) Violate(v Violation) {
	v.Property = c.Prop.ID
	v.Case = c.curCase
	if v.Sig == "" {
		v.Sig = v.Kind
	}
	if len(v.Detail) > 1500 {
		v.Detail = v.Detail[:1500] + "…"
	}
	st := c.Rep.Sigs[v.Sig]
	if st == nil {
		st = &SigStat{First: v}
		c.Rep.Sigs[v.Sig] = st
	}
	st.Count++
	c.Count("violations", 1)
	if c.violOut != nil && st.Count <= 3 {
		if b, err := json.Marshal(v); err == nil {
			c.violOut.Write(append(b, '\n'))
		}
	}
	if c.Replay {
		b, _ := json.MarshalIndent(v, "", " ")
		fmt.Printf("REPLAY-VIOLATION %s\n", b)
	}
}

// ---------------------------------------------------------------------------
// Known findings

type Finding struct {
	Property string
	Sig      string
	Text     string
}

type Known struct {
	Findings []Finding
	Fixed    []Finding
}

func LoadKnown(path string) (*Known, error) {
	k := &Known{}
	b, err := os.ReadFile(path)
	if err != nil {
		if os.IsNotExist(err) {
			return k, nil
		}
		return nil, err
	}
	for _, line := range strings.Split(string(b), "\n") {
		line = strings.TrimSpace(line)
		if line == "" || strings.HasPrefix(line, "#") {
			continue
		}
		var kind string
		switch {
		case strings.HasPrefix(line, "finding:"):
			kind = "finding"
			line = strings.TrimSpace(line[len("finding:"):])
		case strings.HasPrefix(line, "fixed:"):
			kind = "fixed"
			line = strings.TrimSpace(line[len("fixed:"):])
		default:
			return nil, fmt.Errorf("KNOWN_FINDINGS: bad line %q", line)
		}
		f := Finding{}
		rest := line
		for {
			rest = strings.TrimLeft(rest, " \t")
			if strings.HasPrefix(rest, "property=") {
				i := strings.IndexAny(rest, " \t")
				if i < 0 {
					i = len(rest)
				}
				f.Property = rest[len("property="):i]
				rest = rest[i:]
				continue
			}
			if strings.HasPrefix(rest, "sig=") {
				i := strings.IndexAny(rest, " \t")
				if i < 0 {
					i = len(rest)
				}
				f.Sig = rest[len("sig="):i]
				rest = rest[i:]
				continue
			}
			break
		}
		f.Text = strings.TrimSpace(rest)
		if kind == "finding" {
			if f.Property == "" || f.Sig == "" {
				return nil, fmt.Errorf("KNOWN_FINDINGS: finding needs property= and sig=: %q", line)
			}
			k.Findings = append(k.Findings, f)
		} else {
			k.Fixed = append(k.Fixed, f)
		}
	}
	return k, nil
}

func (k *Known) Match(prop, sig string) *Finding {
	for i := range k.Findings {
		if k.Findings[i].Property == prop && k.Findings[i].Sig == sig {
			return &k.Findings[i]
		}
	}
	return nil
}

// BadFeatureSets returns the feature sets ("feat:a+b") listed as findings of the given
// properties. A generated unit is "clean" when it contains none of these sets.
func (k *Known) BadFeatureSets(props ...string) [][]string {
	var out [][]string
	for _, f := range k.Findings {
		ok := false
		for _, p := range props {
			if f.Property == p {
				ok = true
			}
		}
		if !ok || !strings.HasPrefix(f.Sig, "feat:") {
			continue
		}
		out = append(out, strings.Split(f.Sig[len("feat:"):], "+"))
	}
	return out
}

// ---------------------------------------------------------------------------
// Shard child

func tierOf(s string) string {
	if s == "thorough" {
		return "thorough"
	}
	return "quick"
}

// RunShard is the body of `vcheck shard`.
func RunShard(p *Prop, tier string, seed uint64, shard, nshards int, from int64, dir, reportPath, knownPath string) int {
	kn, err := LoadKnown(knownPath)
	if err != nil {
		fmt.Fprintln(os.Stderr, err)
		return 3
	}
	gm := p.Gomaxprocs
	if gm == 0 {
		gm = 2
	}
	runtime.GOMAXPROCS(gm)
	debug.SetTraceback("all")
	rep := &ShardReport{Property: p.ID, Shard: shard, Counters: map[string]int64{}, Sigs: map[string]*SigStat{}, hashes: map[uint64]struct{}{}}
	c := &Ctx{Prop: p, Tier: tier, Seed: seed, Shard: shard, NShards: nshards, Dir: dir, Known: kn, Rep: rep}
	jf, err := os.OpenFile(reportPath+".journal", os.O_CREATE|os.O_RDWR, 0o644)
	if err != nil {
		fmt.Fprintln(os.Stderr, err)
		return 3
	}
	c.journal = jf
	if vf, err := os.OpenFile(reportPath+".viol", os.O_CREATE|os.O_WRONLY|os.O_APPEND, 0o644); err == nil {
		c.violOut = vf
	}
	n := p.Cases(tier)
	go rssWatchdog(c)
	if p.Setup != nil {
		p.Setup(c)
	}
	var buf [8]byte
	lastFlush := time.Now()
	start := from
	if start < int64(shard) {
		start = int64(shard)
	}
	for idx := start; idx < n; idx += int64(nshards) {
		c.curCase = idx
		binary.LittleEndian.PutUint64(buf[:], uint64(idx))
		jf.WriteAt(buf[:], 0)
		atomic.StoreInt64(&c.caseStart, time.Now().UnixNano())
		t0 := time.Now()
		runCaseRecover(c, idx)
		atomic.StoreInt64(&c.caseStart, 0)
		if d := time.Since(t0); d > 5*time.Second {
			// diagnostic only (never a verdict): which cases dominate the wall time of a run
			fmt.Fprintf(os.Stderr, "VERIF-NOTE slow case=%d wall=%v\n", idx, d.Round(time.Millisecond))
		}
		rep.Evaluations++
		if rep.Evaluations%512 == 0 && time.Since(lastFlush) > 2*time.Second {
			lastFlush = time.Now()
			part := &ShardReport{Property: p.ID, Shard: shard, Evaluations: rep.Evaluations, Counters: rep.Counters, Samples: rep.Samples}
			if b, err := json.Marshal(part); err == nil {
				os.WriteFile(reportPath+".partial", b, 0o644)
			}
		}
	}
	if p.Finish != nil {
		p.Finish(c)
	}
	rep.Done = true
	return writeShardReport(c, reportPath)
}

func writeShardReport(c *Ctx, reportPath string) int {
	b, err := json.Marshal(c.Rep)
	if err != nil {
		fmt.Fprintln(os.Stderr, "marshal report:", err)
		return 3
	}
	if err := os.WriteFile(reportPath, b, 0o644); err != nil {
		fmt.Fprintln(os.Stderr, err)
		return 3
	}
	hb := make([]byte, 0, 8*len(c.Rep.hashes))
	for h := range c.Rep.hashes {
		hb = binary.LittleEndian.AppendUint64(hb, h)
	}
	if err := os.WriteFile(reportPath+".hashes", hb, 0o644); err != nil {
		fmt.Fprintln(os.Stderr, err)
		return 3
	}
	return 0
}

func runCaseRecover(c *Ctx, idx int64) {
	defer func() {
		if r := recover(); r != nil {
			st := string(debug.Stack())
			if cp, ok := r.(carriedPanic); ok {
				// a panic on a request goroutine, carried over with its own stack
				r, st = cp.Value, cp.Stack
			}
			site := topRepoFrame(st)
			c.Violate(Violation{Kind: "panic", Sig: "panic:" + site, Pool: "n/a",
				Detail: fmt.Sprintf("panic: %v at %s", r, site), Witness: map[string]any{"stack": trimStack(st)}})
		}
	}()
	c.Prop.RunCase(c, idx)
}

// carriedPanic re-raises on the case goroutine a panic that happened on a request goroutine.
type carriedPanic struct {
	Value any
	Stack string
}

const caseWatchdog = 180 * time.Second

const repoMod = "github.com/juev/hledger-lsp/"

// topRepoFrame returns the first repository (non-harness) function in a stack trace.
func topRepoFrame(stack string) string {
	for _, line := range strings.Split(stack, "\n") {
		line = strings.TrimSpace(line)
		if !strings.HasPrefix(line, repoMod) || strings.Contains(line, "internal/zzverif") {
			continue
		}
		if i := strings.LastIndex(line, "("); i > 0 {
			line = line[:i]
		}
		return strings.TrimPrefix(line, repoMod)
	}
	return "unknown"
}

func trimStack(s string) string {
	if len(s) > 3000 {
		return s[:3000]
	}
	return s
}

// rssWatchdog ends the child when resident memory exceeds 3 GiB; the parent attributes
// the death to the journalled case.
func rssWatchdog(c *Ctx) {
	for {
		time.Sleep(200 * time.Millisecond)
		// generous per-case wall-clock watchdog: its firing is inconclusive, never a verdict
		if st := atomic.LoadInt64(&c.caseStart); st != 0 && time.Now().UnixNano()-st > int64(caseWatchdog) {
			buf := make([]byte, 1<<20)
			n := runtime.Stack(buf, true)
			fmt.Fprintf(os.Stderr, "VERIF-HANG case=%d\n%s\n", c.curCase, buf[:n])
			os.Exit(98)
		}
		b, err := os.ReadFile("/proc/self/statm")
		if err != nil {
			continue
		}
		var size, rss int64
		fmt.Sscanf(string(b), "%d %d", &size, &rss)
		if rss*4096 > 3<<30 {
			fmt.Fprintf(os.Stderr, "VERIF-RSS-CAP case=%d rss=%d\n", c.curCase, rss*4096)
			os.Exit(97)
		}
	}
}
