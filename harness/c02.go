package zv

import (
	"fmt"
	"math/big"
	"sort"
	"strings"

	"go.lsp.dev/protocol"
)

// C02 Unbalanced-transaction verdicts are exact.

// ratDigits returns the exact decimal digits of a finite-decimal rational.
func ratDigits(r *big.Rat) (neg bool, intD, fracD string) {
	x := new(big.Rat).Set(r)
	if x.Sign() < 0 {
		neg = true
		x.Neg(x)
	}
	n := 0
	ten := big.NewInt(10)
	d := new(big.Int).Set(x.Denom())
	one := big.NewInt(1)
	num := new(big.Int).Set(x.Num())
	for d.Cmp(one) != 0 && n < 40 {
		num.Mul(num, ten)
		g := new(big.Int).GCD(nil, nil, num, d)
		num.Quo(num, g)
		d.Quo(d, g)
		n++
	}
	s := x.FloatString(n)
	if i := strings.IndexByte(s, '.'); i >= 0 {
		return neg, s[:i], s[i+1:]
	}
	return neg, s, ""
}

// amountFeats names the features (DESIGN 4.2) an amount rendering carries.
func amountFeats(a *MAmount) []string {
	var fs []string
	if a.Form != "code-right" {
		fs = append(fs, "cmdty."+a.Form)
	}
	switch a.Sign {
	case "-precomm":
		fs = append(fs, "sign.precomm")
	case "+num", "+precomm", "+postcomm":
		fs = append(fs, "sign.plus")
		if a.Sign == "+precomm" {
			fs = append(fs, "sign.precomm")
		}
	}
	switch a.Notation {
	case "int":
	case "exp":
		if strings.Contains(a.ExpStyle, ",") {
			fs = append(fs, "num.exp-comma")
		} else {
			fs = append(fs, "num.exp")
		}
	default:
		fs = append(fs, "num."+a.Notation)
	}
	if a.NoSpace && (a.Form == "code-right" || a.Form == "sym-right") {
		fs = append(fs, "amt.nospace")
	}
	return fs
}

type c02Commodity struct {
	Sym   string
	Forms []string
}

var c02Commodities = []c02Commodity{
	{"USD", []string{"code-right", "code-left", "code-left-nospace"}},
	{"EUR", []string{"code-right", "code-left", "code-left-nospace"}},
	{"$", []string{"sym-left", "sym-right"}},
	{"€", []string{"sym-left", "sym-right"}},
	{"hours", []string{"lower-right"}},
	{"green apples", []string{"quoted-right", "quoted-left"}},
	{"", []string{"none"}},
}

// renderAmount chooses a notation, sign placement and commodity side for an exact value.
func renderAmount(r *RNG, val *big.Rat, cm c02Commodity, plain bool, bad [][]string, allowSign bool) *MAmount {
	neg, intD, fracD := ratDigits(val)
	for try := 0; ; try++ {
		a := &MAmount{Commodity: cm.Sym, Neg: neg}
		a.Form = cm.Forms[0]
		if !plain && try < 30 {
			a.Form = Pick(r, cm.Forms)
		}
		if a.Form == "code-left-nospace" {
			a.NoSpace = true
		}
		if (a.Form == "sym-right" || a.Form == "code-right") && !plain && r.Chance(1, 4) {
			a.NoSpace = true
		}
		fd := fracD
		zeroInt := strings.Trim(intD, "0") == ""
		if len(fd) == 3 && !zeroInt {
			fd += "0" // "3.375" would be ambiguous (one mark, three digits): write 3.3750
		}
		// "0.375" is not ambiguous (no group of thousands in front of the mark) and stays as it is,
		// also behind a sign
		a.Num = MNum{Int: intD, Frac: fd}
		var nots []string
		if fd == "" {
			nots = []string{"int", "int", "trail"}
			if len(intD) >= 4 {
				nots = append(nots, "grp_.")
			}
			if len(intD) >= 7 {
				nots = append(nots, "grp,.", "grp.,")
			}
			if strings.HasSuffix(intD, "00") && len(intD) <= 6 {
				nots = append(nots, "exp-int")
			}
		} else {
			nots = []string{"point", "point", "comma", "exp-shift"}
			if len(intD) >= 4 {
				nots = append(nots, "grp,.", "grp.,", "grp_.", "grp_,")
			}
		}
		a.Notation = nots[0]
		if !plain && try < 30 {
			a.Notation = Pick(r, nots)
		}
		switch a.Notation {
		case "exp-int":
			// 1200 = 12E2
			m := strings.TrimRight(intD, "0")
			z := len(intD) - len(m)
			a.Num = MNum{Int: m, HasExp: true, Exp: z}
			a.Notation = "exp"
			a.ExpStyle = Pick(r, []string{"E.", "e.", "E.+"})
		case "exp-shift":
			// 12.34 = 1234E-2 or 1.234E1 …; keep the mantissa unambiguous (no 3-digit fraction)
			k := len(fd)
			m := strings.TrimLeft(intD+fd, "0")
			if m == "" {
				m = "0"
			}
			a.Num = MNum{Int: m, HasExp: true, Exp: -k}
			a.Notation = "exp"
			a.ExpStyle = Pick(r, []string{"E.", "e."})
		case "grp_,":
			if len(fd) == 3 {
				continue
			}
		case "comma", "point":
			if len(fd) == 3 && !zeroInt {
				continue
			}
		}
		if neg {
			a.Sign = "-num"
			if a.Left() {
				a.Sign = "-postcomm"
				if !plain && r.Bool() {
					a.Sign = "-precomm"
				}
			}
		} else if allowSign && !plain && r.Chance(1, 6) {
			a.Sign = "+num"
			if a.Left() {
				a.Sign = Pick(r, []string{"+precomm", "+postcomm"})
			}
		}
		if try < 60 && isBadSet(bad, amountFeats(a)) {
			continue
		}
		return a
	}
}

type c02Posting struct {
	Kind     string // "" ( [
	Acct     string
	Cm       int      // commodity index, -1 = amount-less
	Qty      *big.Rat // signed
	CostKind string   // "" @ @@
	CostCm   int
	Cost     *big.Rat // positive
}

type c02Tx struct {
	Ps []c02Posting
}

func randDec(r *RNG, maxDec int) *big.Rat {
	dec := Pick(r, []int{0, 0, 1, 2, 2, 4, 5, 6})
	if dec > maxDec {
		dec = maxDec
	}
	n := int64(r.Range(1, 99999))
	if r.Chance(1, 10) {
		n = int64(r.Range(100000, 999999999))
	}
	den := new(big.Int).Exp(big.NewInt(10), big.NewInt(int64(dec)), nil)
	return new(big.Rat).SetFrac(big.NewInt(n), den)
}

// totals over ordinary and bracketed postings with amounts, cost-converted.
func (t *c02Tx) totals() (map[int]*big.Rat, int) {
	tot := map[int]*big.Rat{}
	missing := 0
	for _, p := range t.Ps {
		if p.Kind == "(" {
			continue
		}
		if p.Cm < 0 {
			missing++
			continue
		}
		cm, v := p.Cm, new(big.Rat).Set(p.Qty)
		switch p.CostKind {
		case "@":
			cm = p.CostCm
			v = new(big.Rat).Mul(new(big.Rat).Abs(p.Qty), p.Cost)
			if p.Qty.Sign() < 0 {
				v.Neg(v)
			}
		case "@@":
			cm = p.CostCm
			v = new(big.Rat).Set(p.Cost)
			if p.Qty.Sign() < 0 {
				v.Neg(v)
			}
		}
		if tot[cm] == nil {
			tot[cm] = new(big.Rat)
		}
		tot[cm].Add(tot[cm], v)
	}
	return tot, missing
}

func genC02Tx(r *RNG, cms []int) (*c02Tx, string) {
	t := &c02Tx{}
	np := r.Range(0, 5)
	accts := []string{"assets:cash", "assets:bank", "expenses:food", "expenses:rent", "income:salary", "equity:opening", "liabilities:card"}
	for i := 0; i < np; i++ {
		p := c02Posting{Acct: Pick(r, accts), Cm: Pick(r, cms)}
		switch r.Intn(8) {
		case 0:
			p.Kind = "("
		case 1, 2:
			p.Kind = "["
		}
		p.Qty = randDec(r, 6)
		if r.Chance(1, 12) {
			p.Qty = new(big.Rat)
		}
		if r.Bool() {
			p.Qty.Neg(p.Qty)
		}
		if len(cms) > 1 && r.Chance(1, 4) && p.Qty.Sign() != 0 {
			p.CostCm = Pick(r, cms)
			for p.CostCm == p.Cm {
				p.CostCm = Pick(r, cms)
			}
			p.Cost = randDec(r, 4)
			p.CostKind = Pick(r, []string{"@", "@", "@@"})
		}
		t.Ps = append(t.Ps, p)
	}
	mode := Pick(r, []string{"balanced", "balanced", "unbalanced", "unbalanced", "one-missing", "multi-missing", "as-is"})
	close := func() {
		tot, _ := t.totals()
		var keys []int
		for k := range tot {
			keys = append(keys, k)
		}
		sort.Ints(keys)
		for _, k := range keys {
			if tot[k].Sign() != 0 && len(t.Ps) < 8 {
				kind := ""
				if r.Chance(1, 4) {
					kind = "["
				}
				t.Ps = append(t.Ps, c02Posting{Kind: kind, Acct: Pick(r, accts), Cm: k, Qty: new(big.Rat).Neg(tot[k])})
			}
		}
	}
	switch mode {
	case "balanced":
		close()
	case "unbalanced":
		close()
		// perturb one real cost-less posting by an exact delta not below the written precision
		var cand []int
		for i, p := range t.Ps {
			if p.Kind != "(" && p.Cm >= 0 && p.CostKind == "" {
				cand = append(cand, i)
			}
		}
		if len(cand) == 0 {
			t.Ps = append(t.Ps, c02Posting{Acct: Pick(r, accts), Cm: cms[0], Qty: randDec(r, 2)})
		} else {
			i := Pick(r, cand)
			_, _, fd := ratDigits(t.Ps[i].Qty)
			d := len(fd)
			delta := new(big.Rat).SetFrac(big.NewInt(int64(r.Range(1, 500))), new(big.Int).Exp(big.NewInt(10), big.NewInt(int64(r.Intn(d+1))), nil))
			if r.Bool() {
				delta.Neg(delta)
			}
			t.Ps[i].Qty = new(big.Rat).Add(t.Ps[i].Qty, delta)
		}
	case "one-missing":
		t.Ps = append(t.Ps, c02Posting{Kind: Pick(r, []string{"", "", "["}), Acct: Pick(r, accts), Cm: -1})
	case "multi-missing":
		n := r.Range(2, 3)
		for i := 0; i < n; i++ {
			t.Ps = append(t.Ps, c02Posting{Kind: Pick(r, []string{"", "", "["}), Acct: Pick(r, accts), Cm: -1})
		}
	}
	if r.Chance(1, 6) {
		// an amount-less (virtual) posting never counts as missing
		t.Ps = append(t.Ps, c02Posting{Kind: "(", Acct: Pick(r, accts), Cm: -1})
	}
	// shuffle
	perm := r.Perm(len(t.Ps))
	ps := make([]c02Posting, len(t.Ps))
	for i, k := range perm {
		ps[i] = t.Ps[k]
	}
	t.Ps = ps
	return t, mode
}

type c02Expect struct {
	Code  string // "" UNBALANCED MULTIPLE_INFERRED
	Diffs map[string]*big.Rat
}

func (t *c02Tx) expect(syms []c02Commodity) (c02Expect, bool) {
	tot, missing := t.totals()
	if missing > 1 {
		return c02Expect{Code: "MULTIPLE_INFERRED"}, true
	}
	if missing == 1 {
		return c02Expect{}, true
	}
	e := c02Expect{Diffs: map[string]*big.Rat{}}
	hasCost := false
	for _, p := range t.Ps {
		if p.CostKind != "" {
			hasCost = true
		}
	}
	nz := 0
	for k, v := range tot {
		if v.Sign() != 0 {
			nz++
			e.Diffs[syms[k].Sym] = new(big.Rat).Abs(v)
		}
	}
	if nz > 0 {
		e.Code = "UNBALANCED"
	}
	// restriction of the property: hledger would infer a price for exactly two non-zero
	// commodities in a cost-less transaction; such cases are outside the statement
	if nz == 2 && !hasCost {
		return e, false
	}
	return e, true
}

func renderC02(r *RNG, t *c02Tx, syms []c02Commodity, plain bool, bad [][]string, date string) []string {
	var lines []string
	lines = append(lines, date+" "+Pick(r, []string{"shop", "monthly rent", "café", "trade 🍕"}))
	for _, p := range t.Ps {
		indent, sep := "    ", "  "
		if !plain {
			indent = Pick(r, []string{"    ", "  ", " ", "\t", "        "})
			sep = Pick(r, []string{"  ", "   ", "      ", "\t", "  \t"})
		}
		mp := &MPosting{Indent: indent, Sep: sep, Account: p.Acct, Virtual: p.Kind, CGap: "  "}
		if !plain && r.Chance(1, 8) {
			mp.Status = Pick(r, []string{"*", "!"})
		}
		if p.Cm >= 0 {
			mp.Amount = renderAmount(r, p.Qty, syms[p.Cm], plain, bad, true)
			if p.CostKind != "" {
				mp.Cost = &MCost{Total: p.CostKind == "@@", Amt: *renderAmount(r, p.Cost, syms[p.CostCm], plain, bad, false)}
			}
		}
		if !plain && r.Chance(1, 6) {
			mp.Comment = &MComment{Lead: " ", Free: "note"}
		}
		w := &lineWriter{out: &Rendered{}, eol: "\n", pidx: -1}
		w.posting(mp)
		lines = append(lines, w.cur.String())
	}
	return lines
}

func parseBalanceMsg(msg string) (map[string]*big.Rat, bool) {
	const pfx = "transaction does not balance: "
	if !strings.HasPrefix(msg, pfx) {
		return nil, false
	}
	out := map[string]*big.Rat{}
	for _, item := range strings.Split(msg[len(pfx):], "; ") {
		i := strings.LastIndex(item, " off by ")
		if i < 0 {
			return nil, false
		}
		v, ok := new(big.Rat).SetString(item[i+len(" off by "):])
		if !ok {
			return nil, false
		}
		out[item[:i]] = v
	}
	return out, true
}

type c02State struct {
	sess  *Session
	nsess int
	bad   [][]string
}

const c02Renderings = 8

func init() {
	Register(&Prop{
		ID:    "C02",
		Rule:  "model transactions (0-8 postings, ordinary/(virtual)/[balanced-virtual], 1-3 commodities, @ and @@ costs, exact rational quantities; balanced by construction, unbalanced by an exact residual not below the written precision, one or several amount-less postings), each rendered 8 times with different number notation, sign placement, commodity side and spacing; opened in the real server; expected verdict computed from the model in exact arithmetic. Non-trivial = transaction with >=2 postings; distinct by text hash.",
		Notes: []string{"transactions on which hledger would infer a price (exactly two unbalanced commodities, no cost) are not generated/judged", "renderings avoid the amount forms listed as C03 findings", "reference oracle and message parser are the trusted base"},
		Cases: func(tier string) int64 {
			if tier == "thorough" {
				return 600000
			}
			return 24000
		},
		MustObserve: []string{"transactions_judged", "expected_unbalanced", "expected_multiple", "expected_clean"},
		Setup: func(c *Ctx) {
			c.State = &c02State{bad: c.Known.BadFeatureSets("C03", "C02")}
		},
		RunCase: runC02,
	})
}

func runC02(c *Ctx, idx int64) {
	st := c.State.(*c02State)
	r := c.RNG(idx, 0)
	if st.sess == nil || st.nsess > 2000 {
		st.sess = NewSession(fmt.Sprintf("%s/c02-%d", c.Dir, idx), SessOpt{})
		st.nsess = 0
	}
	st.nsess++
	s := st.sess
	// commodity set of this case
	ncm := r.Range(1, 3)
	perm := r.Perm(len(c02Commodities))
	var syms []c02Commodity
	var cms []int
	for i := 0; i < ncm; i++ {
		syms = append(syms, c02Commodities[perm[i]])
		cms = append(cms, i)
	}
	t, mode := genC02Tx(r, cms)
	exp, inDomain := t.expect(syms)
	if !inDomain {
		c.Count("outside_statement_skipped", 1)
		return
	}
	// k renderings of the same transaction in one document (first one plain)
	var doc []string
	var starts []int
	for k := 0; k < c02Renderings; k++ {
		starts = append(starts, len(doc))
		date := fmt.Sprintf("2019-%02d-%02d", 1+k, 1+r.Intn(28))
		doc = append(doc, renderC02(r, t, syms, k == 0, st.bad, date)...)
		doc = append(doc, "")
	}
	text := strings.Join(doc, "\n")
	uri := s.URI(fmt.Sprintf("b%d.journal", idx))
	pub, ok := s.OpenWait(uri, text)
	s.Close(uri)
	if !ok {
		c.Inconclusive("no publish: " + s.WaitInfo)
		return
	}
	c.Count("documents", 1)
	if len(t.Ps) >= 2 {
		c.Nontrivial(HashStr(text))
	}
	switch exp.Code {
	case "UNBALANCED":
		c.Count("expected_unbalanced", 1)
	case "MULTIPLE_INFERRED":
		c.Count("expected_multiple", 1)
	default:
		c.Count("expected_clean", 1)
	}
	c.Count("mode:"+mode, 1)
	// diagnostics per rendering
	type got struct {
		codes []string
		msgs  []string
	}
	per := make([]got, c02Renderings)
	var syntax []string
	for _, d := range pub.Diagnostics {
		code := CodeOf(d)
		ln := int(d.Range.Start.Line)
		k := sort.SearchInts(starts, ln+1) - 1
		if k < 0 {
			k = 0
		}
		switch code {
		case "UNBALANCED", "MULTIPLE_INFERRED":
			per[k].codes = append(per[k].codes, code)
			per[k].msgs = append(per[k].msgs, d.Message)
		case "":
			syntax = append(syntax, DiagKey(d))
		}
	}
	witness := func() map[string]any {
		return map[string]any{"text": text, "mode": mode, "expected": exp.Code, "expected_diffs": fmtDiffs(exp.Diffs)}
	}
	if c.Rep.Evaluations%499 == 0 {
		c.Sample(map[string]any{"case": idx, "mode": mode, "expected": exp.Code, "expected_diffs": fmtDiffs(exp.Diffs), "first_rendering": strings.Join(doc[:starts[1]], "\n"), "renderings": c02Renderings})
	}
	if len(syntax) > 0 {
		c.Violate(Violation{Kind: "syntax-error-in-rendering", Sig: "C02:syntax-error", Pool: "clean", Detail: "a rendering of the transaction was not parsed: " + syntax[0], Witness: witness()})
		return
	}
	for k := 0; k < c02Renderings; k++ {
		c.Count("transactions_judged", 1)
		g := per[k]
		rd := "plain"
		if k > 0 {
			rd = "varied"
		}
		fail := func(kind, detail string) {
			c.Violate(Violation{Kind: kind, Sig: "C02:" + kind + "|" + mode + "|" + rd, Pool: "clean",
				Detail: fmt.Sprintf("rendering %d (line %d): %s", k, starts[k]+1, detail), Witness: witness()})
		}
		switch exp.Code {
		case "":
			if len(g.codes) > 0 {
				fail("spurious-verdict", fmt.Sprintf("expected no balance diagnostic, got %v %v", g.codes, g.msgs))
				return
			}
		case "MULTIPLE_INFERRED":
			if len(g.codes) != 1 || g.codes[0] != "MULTIPLE_INFERRED" {
				if len(g.codes) == 0 {
					fail("missing-verdict", "expected MULTIPLE_INFERRED, got nothing")
				} else {
					fail("wrong-kind", fmt.Sprintf("expected exactly one MULTIPLE_INFERRED, got %v", g.codes))
				}
				return
			}
		case "UNBALANCED":
			if len(g.codes) == 0 {
				fail("missing-verdict", "expected UNBALANCED "+fmtDiffs(exp.Diffs)+", got nothing")
				return
			}
			if len(g.codes) != 1 || g.codes[0] != "UNBALANCED" {
				fail("wrong-kind", fmt.Sprintf("expected exactly one UNBALANCED, got %v", g.codes))
				return
			}
			m, ok := parseBalanceMsg(g.msgs[0])
			if !ok {
				fail("wrong-residual", "cannot read message "+g.msgs[0])
				return
			}
			same := len(m) == len(exp.Diffs)
			for sym, v := range exp.Diffs {
				if m[sym] == nil || m[sym].Cmp(v) != 0 {
					same = false
				}
			}
			if !same {
				fail("wrong-residual", fmt.Sprintf("expected %s, message %q", fmtDiffs(exp.Diffs), g.msgs[0]))
				return
			}
		}
	}
}

func fmtDiffs(m map[string]*big.Rat) string {
	var ks []string
	for k := range m {
		ks = append(ks, k)
	}
	sort.Strings(ks)
	var out []string
	for _, k := range ks {
		out = append(out, fmt.Sprintf("%q off by %s", k, ratStr(m[k])))
	}
	return strings.Join(out, "; ")
}

var _ = protocol.Diagnostic{}
