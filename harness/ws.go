package zv

import (
	"fmt"
	"os"
	"path/filepath"
	"sort"
	"strings"

	"go.lsp.dev/protocol"
)

// A generated workspace W: 1-5 journals from G with shared symbol pools, connected by include
// directives (acyclic), written to a session directory.

type WS struct {
	Names    []string
	Journals []*MJournal
	Includes [][]int
	Rd       []*Rendered
	Texts    []string
	Root     bool // session initialised with a workspace folder (main.journal is the root journal)
}

var wsNames = []string{"main.journal", "a.journal", "b.journal", "sub/c.journal", "d.journal"}

type WSOpt struct {
	Files     int
	Entries   [2]int // min,max entries per file
	Shape     string // chain star diamond random
	LF        bool   // force LF and a final newline
	NoYearDir bool
}

func genWorkspace(r *RNG, bad [][]string, o WSOpt) *WS {
	n := o.Files
	w := &WS{Names: wsNames[:n], Includes: make([][]int, n)}
	// acyclic include shapes; file 0 is the root
	switch o.Shape {
	case "chain":
		for i := 0; i+1 < n; i++ {
			w.Includes[i] = []int{i + 1}
		}
	case "star":
		for i := 1; i < n; i++ {
			w.Includes[0] = append(w.Includes[0], i)
		}
	case "diamond":
		if n >= 4 {
			w.Includes[0] = []int{1, 2}
			w.Includes[1] = []int{3}
			w.Includes[2] = []int{3}
			for i := 4; i < n; i++ {
				w.Includes[3] = append(w.Includes[3], i)
			}
		} else {
			for i := 1; i < n; i++ {
				w.Includes[0] = append(w.Includes[0], i)
			}
			if n == 3 {
				w.Includes[1] = []int{2}
			}
		}
	default:
		// random DAG in which every file is reachable from the root
		for i := 1; i < n; i++ {
			p := r.Intn(i)
			w.Includes[p] = append(w.Includes[p], i)
			if i >= 2 && r.Chance(1, 3) {
				q := r.Intn(i)
				if q != p {
					w.Includes[q] = append(w.Includes[q], i)
				}
			}
		}
		for i := range w.Includes {
			sort.Ints(w.Includes[i])
		}
	}
	g := NewGen(r, bad)
	for f := 0; f < n; f++ {
		j := g.Journal(r.Range(o.Entries[0], o.Entries[1]))
		if o.LF {
			j.EOL, j.FinalNewline = "\n", true
			var fs []string
			for _, x := range j.Feats {
				if x != "eol.crlf" && x != "eof.nonewline" {
					fs = append(fs, x)
				}
			}
			j.Feats = fs
		}
		// include directives first
		var inc []*MEntry
		for k, t := range w.Includes[f] {
			rel := w.Names[t]
			if strings.HasPrefix(w.Names[f], "sub/") {
				rel = "../" + w.Names[t]
			}
			e := &MEntry{Kind: "dir", Gap: "none", Dir: &MDir{Kind: "include", Path: rel}, Feats: []string{"dir.include"}}
			if k == 0 {
				e.Gap = "one"
			}
			inc = append(inc, e)
		}
		if len(inc) > 0 && len(j.Entries) > 0 && j.Entries[0].Gap == "none" {
			j.Entries[0].Gap = "one"
		}
		j.Entries = append(inc, j.Entries...)
		w.Journals = append(w.Journals, j)
	}
	w.render()
	return w
}

func (w *WS) render() {
	w.Rd, w.Texts = nil, nil
	for _, j := range w.Journals {
		rd := j.Render()
		w.Rd = append(w.Rd, rd)
		w.Texts = append(w.Texts, rd.Text)
	}
}

func (w *WS) Write(dir string) {
	for i, n := range w.Names {
		p := filepath.Join(dir, n)
		os.MkdirAll(filepath.Dir(p), 0o755)
		os.WriteFile(p, []byte(w.Texts[i]), 0o644)
	}
}

func (w *WS) AllFeats() []string {
	m := map[string]bool{}
	for _, j := range w.Journals {
		for _, f := range j.AllFeats() {
			m[f] = true
		}
	}
	var out []string
	for f := range m {
		out = append(out, f)
	}
	sort.Strings(out)
	return out
}

// Closure returns the files reachable from f through include directives (f included).
func (w *WS) Closure(f int) []int {
	seen := map[int]bool{f: true}
	q := []int{f}
	for len(q) > 0 {
		x := q[0]
		q = q[1:]
		for _, t := range w.Includes[x] {
			if !seen[t] {
				seen[t] = true
				q = append(q, t)
			}
		}
	}
	var out []int
	for k := range seen {
		out = append(out, k)
	}
	sort.Ints(out)
	return out
}

// Scope is the set of files a request issued from file f sees: the workspace tree with a root,
// the file and its include closure without.
func (w *WS) Scope(f int) []int {
	if w.Root {
		return w.Closure(0)
	}
	return w.Closure(f)
}

func (w *WS) URI(s *Session, f int) protocol.DocumentURI { return s.URI(w.Names[f]) }

func (w *WS) FileOfURI(s *Session, u protocol.DocumentURI) int {
	for i := range w.Names {
		if s.URI(w.Names[i]) == u {
			return i
		}
	}
	return -1
}

// lexAt returns the lexemes of file f on the given line.
func (w *WS) lexOnLine(f, line int) []Lexeme {
	var out []Lexeme
	for _, l := range w.Rd[f].Lex {
		if l.Line == line {
			out = append(out, l)
		}
	}
	return out
}

func (w *WS) String() string {
	var sb strings.Builder
	for i, n := range w.Names {
		fmt.Fprintf(&sb, "=== %s includes %v\n%s\n", n, w.Includes[i], w.Texts[i])
	}
	return sb.String()
}

// singleFileWS wraps one journal as a workspace (for reduction by MinimalFailing).
func singleFileWS(j *MJournal) *WS {
	w := &WS{Names: wsNames[:1], Includes: make([][]int, 1), Journals: []*MJournal{j}}
	w.render()
	return w
}
