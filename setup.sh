#!/bin/bash
# setup_cmd: warm the Go build cache (plain and race) from files on disk only.
set -u
cd /verif
exec ./check.sh warm
