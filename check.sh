#!/bin/bash
# /verif/check.sh <ID> quick|thorough | replay <file> | warm | build <dir>
# Rebuilds the harness inside a scratch copy of /repo's current working tree (hooks on: -tags verif),
# runs the monitor for one property, writes /verif/evidence/<ID>.json, removes the scratch copy.
set -u
VERIF=/verif
REPO=${VERIF_REPO:-/repo}
cmd=${1:-}
arg=${2:-quick}

export GOFLAGS=-mod=mod GOPROXY=off
unset GOSUMDB GOTOOLCHAIN GOMAXPROCS 2>/dev/null
export GOTOOLCHAIN=auto
unset LEDGER_FILE HLEDGER_JOURNAL

S=$(mktemp -d /tmp/hlv.XXXXXX) || { echo "INCONCLUSIVE property=$cmd cannot create scratch dir"; exit 2; }
cleanup() { [ -n "${VERIF_KEEP:-}" ] && { echo "scratch kept: $S" >&2; return; }; rm -rf "$S"; }
trap cleanup EXIT
trap 'cleanup; exit 2' INT TERM

build() { # $1 = "race" to add the race build
  local C=$S/hledger-lsp
  mkdir -p "$C"
  rsync -a --exclude .git "$REPO"/ "$C"/ || return 1
  rm -rf "$C/internal/zzverif"
  mkdir -p "$C/internal/zzverif"
  rsync -a "$VERIF/harness/" "$C/internal/zzverif/" || return 1
  rm -f "$C/internal/zzverif/go.sum.extra"
  if ! grep -q anishathalye/porcupine "$C/go.mod"; then
    printf '\nrequire github.com/anishathalye/porcupine v1.3.0\n' >> "$C/go.mod"
  fi
  cat "$VERIF/harness/go.sum.extra" >> "$C/go.sum"
  GO=go
  if ! (cd "$C" && $GO version >/dev/null 2>&1); then
    GO=go1.26.8; export GOTOOLCHAIN=local
  fi
  export VERIF_TOOLCHAIN="$(cd "$C" && $GO version 2>/dev/null)"
  (cd "$C" && $GO build -tags verif -trimpath -o "$S/vcheck" ./internal/zzverif/cmd/vcheck) > "$S/build.log" 2>&1 || { cat "$S/build.log"; return 1; }
  (cd "$C" && $GO build -trimpath -o "$S/hledger-lsp-bin" ./cmd/hledger-lsp) >> "$S/build.log" 2>&1 || { cat "$S/build.log"; return 1; }
  if [ "${1:-}" = race ]; then
    (cd "$C" && $GO build -race -tags verif -trimpath -o "$S/vcheck-race" ./internal/zzverif/cmd/vcheck) >> "$S/build.log" 2>&1 || { cat "$S/build.log"; return 1; }
  fi
  return 0
}

needs_race() { case "$1" in C13|C14|C17|C19) return 0;; esac; return 1; }

export VERIF_SCRATCH=$S
export VERIF_KNOWN=${VERIF_KNOWN:-$VERIF/KNOWN_FINDINGS.txt}
export VERIF_REPLAYDIR=$VERIF/replay
export VERIF_SEED=${VERIF_SEED:-1}

case "$cmd" in
  warm)
    build race || { echo "setup: build failed"; exit 1; }
    echo "setup: harness builds ($VERIF_TOOLCHAIN)"; exit 0;;
  replay)
    build race || { echo "INCONCLUSIVE replay build failed"; exit 2; }
    export VERIF_RACE_EXE=$S/vcheck-race VERIF_WIRE_EXE=$S/hledger-lsp-bin
    "$S/vcheck" replay "$arg"; exit $?;;
  C[0-9][0-9])
    tier=$arg
    [ -n "${VERIF_TIER:-}" ] && [ -z "${2:-}" ] && tier=$VERIF_TIER
    if needs_race "$cmd"; then build race; else build; fi || { echo "INCONCLUSIVE property=$cmd harness build failed (see above)"; exit 2; }
    [ -x "$S/vcheck-race" ] && export VERIF_RACE_EXE=$S/vcheck-race
    export VERIF_WIRE_EXE=$S/hledger-lsp-bin
    export VERIF_EVIDENCE=${VERIF_EVIDENCE:-$VERIF/evidence/$cmd.json}
    "$S/vcheck" check "$cmd" "$tier"
    rc=$?
    exit $rc;;
  *)
    echo "usage: check.sh <ID> quick|thorough | replay <file> | warm"; exit 2;;
esac
