#!/bin/bash
# tools/verify_seed.sh <seed-dir> : confirm a seeded change in a scratch worktree of /repo HEAD:
#   (i) with the patch the repository's suite passes, (ii) with the patch the demonstration fails,
#   (iii) without the patch the demonstration passes. Prints one line VERIFIED/REJECTED.
set -u
d=$1; id=$(basename "$d")
export GOFLAGS=-mod=mod GOPROXY=off
W=/tmp/wt/verify-$id
git -C /repo worktree remove --force "$W" 2>/dev/null
git -C /repo worktree add --detach "$W" HEAD -q || { echo "REJECTED $id cannot create worktree"; exit 1; }
trap 'git -C /repo worktree remove --force "$W" 2>/dev/null' EXIT
cd "$W"
demo=$(ls "$d"/*_test.go 2>/dev/null | head -1)
[ -z "$demo" ] && { echo "REJECTED $id no demo"; exit 1; }
dest=$(head -1 "$demo" | sed -n 's/.*copy to: *\([^ ]*\).*/\1/p')
[ -z "$dest" ] && dest=internal/server/
tags=""
grep -q "go:build verif\|-tags verif" "$demo" "$d/meta.json" 2>/dev/null && tags="-tags verif"
cp "$demo" "$dest/zz_seed_demo_test.go"
pkg=./$(echo $dest | sed 's#/$##')
go test $tags -vet=off -count=1 $pkg >/tmp/vs-$id-clean.log 2>&1; clean=$?
if ! git apply "$d/patch.diff" 2>/tmp/vs-$id-apply.log; then
  rm -f "$dest/zz_seed_demo_test.go"
  git apply --3way "$d/patch.diff" 2>>/tmp/vs-$id-apply.log || { echo "REJECTED $id patch does not apply to HEAD"; exit 1; }
  git diff HEAD > "$d/patch.diff.rebased" && mv "$d/patch.diff.rebased" "$d/patch.diff"
  git reset -q
  cp "$demo" "$dest/zz_seed_demo_test.go"
  echo "  (patch rebased onto HEAD by 3-way merge)"
fi
go test $tags -vet=off -count=1 $pkg >/tmp/vs-$id-patched.log 2>&1; patched=$?
rm -f "$dest/zz_seed_demo_test.go"
go build ./... >/dev/null 2>&1 || { echo "REJECTED $id does not build"; exit 1; }
go test -vet=off -count=1 ./... >/tmp/vs-$id-suite.log 2>&1; suite=$?
if [ $clean -eq 0 ] && [ $patched -ne 0 ] && [ $suite -eq 0 ]; then echo "VERIFIED $id (demo passes clean, fails patched, suite passes patched)"; exit 0; fi
echo "REJECTED $id clean=$clean patched=$patched suite=$suite"; exit 1
