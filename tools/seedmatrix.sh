#!/bin/bash
# tools/seedmatrix.sh [seed-ids...] : apply every seeded change in turn and run its property's quick check
cd /verif
ids="$@"; [ -z "$ids" ] && ids=$(ls seeded | grep '^C')
for n in $ids; do
  id=${n:0:3}
  out=$(timeout 1500 tools/mutant.sh /verif/seeded/$n/patch.diff $id quick 2>&1)
  sigs=$(echo "$out" | grep -E "^  sig=" | sed 's/^  sig=\([^ ]*\).*/\1/' | head -4 | tr '\n' ' ')
  if echo "$out" | grep -q "^VIOLATION"; then echo "$n DETECTED by $id: $sigs"; else echo "$n MISSED by $id: $(echo "$out" | grep -E 'SUMMARY|PATCH|INCONCL' | head -2 | cut -c1-150)"; fi
  [ -n "$(git -C /repo status --short)" ] && { echo "repo dirty after $n"; git -C /repo checkout HEAD -- .; }
done
