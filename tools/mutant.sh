#!/bin/bash
# tools/mutant.sh <patch.diff> <ID> [tier]: apply a seeded change to a scratch worktree of /repo HEAD
# (never to /repo itself), run the check against that worktree, remove it.
set -u
patch=$1; id=$2; tier=${3:-quick}
W=$(mktemp -d /tmp/wt-mut.XXXXXX)
rmdir "$W"
git -C /repo worktree add -q --detach "$W" HEAD || { echo "cannot create worktree"; exit 2; }
trap 'git -C /repo worktree remove --force "$W" 2>/dev/null; git -C /repo worktree prune' EXIT
# uncommitted changes of /repo's working tree (if any) are part of what is checked
if ! git -C /repo diff --quiet; then git -C /repo diff | git -C "$W" apply; fi
git -C "$W" apply "$patch" 2>/dev/null || (cd "$W" && patch -p1 --fuzz=2 -s < "$patch" && find . -name '*.orig' -delete) || { echo "PATCH-DOES-NOT-APPLY $patch"; exit 3; }
cd /verif
VERIF_REPO="$W" VERIF_EVIDENCE=/tmp/mutant-evidence-$id-$$.json ./check.sh "$id" "$tier" 2>&1 | grep -v "^COUNTERS" | grep -E "^(VIOLATION|SUMMARY|INCONCLUSIVE|  sig=)" | head -${LINES_MAX:-8}
rc=${PIPESTATUS[0]}
rm -f /tmp/mutant-evidence-$id-$$.json
exit $rc
