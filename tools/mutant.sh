#!/bin/bash
# tools/mutant.sh <patch.diff> <ID> [tier]: apply a seeded change to /repo, run the check, undo.
set -u
patch=$1; id=$2; tier=${3:-quick}
cd /repo || exit 2
git diff --quiet || { echo "repo dirty"; exit 2; }
git apply "$patch" 2>/dev/null || git apply --3way "$patch" || { echo "PATCH-DOES-NOT-APPLY $patch"; git checkout HEAD -- . ; exit 3; }
cd /verif
VERIF_EVIDENCE=/tmp/mutant-evidence-$id.json ./check.sh "$id" "$tier" 2>&1 | grep -v "^COUNTERS" | grep -E "^(VIOLATION|SUMMARY|INCONCLUSIVE|  sig=)" | head -${LINES_MAX:-8}
rc=${PIPESTATUS[0]}
cd /repo && git checkout HEAD -- . && git clean -fdq internal cmd 2>/dev/null
git status --short | head -3
exit $rc
