#!/usr/bin/env python3
# Regenerates /verif/MANIFEST.json from the table below (claimed checks) and properties.jsonl.
import json, subprocess
props=[json.loads(l)['id'] for l in open('/verif/properties.jsonl')]
C = {}  # id -> (technique, level text, level note, design ref)
def claim(i, technique, text, note, ref): C[i]=(technique,text,note,ref)
exec(open('/verif/tools/claims.py').read())
hooks=[l.strip() for l in open('/verif/MANIFEST.hooks') if l.strip() and not l.startswith('#')] if __import__('os').path.exists('/verif/MANIFEST.hooks') else []
m={"version":1,
 "setup_cmd":"/verif/setup.sh",
 "hooks":{"guard":"verif","enable":"go build -tags verif on a scratch copy of /repo's working tree (check.sh copies the tree, injects /verif/harness as internal/zzverif, builds plain and -race binaries there)","baseline_off_cmd":"cd /repo && GOFLAGS=-mod=mod go test -vet=off -count=1 -timeout 25m ./...","source_commits":[h.split()[0] for h in hooks],"add_only":True},
 "engines":[{"name":"vcheck","path":"/verif/harness","serves_properties":sorted(C),"kind_free_text":"Go runtime-monitoring harness injected into a scratch copy of the repository: reference-model monitors over generated cases, schedule controller at gates, Go race detector, porcupine linearizability checks, child-process crash containment"}],
 "checks":[],
 "notes":"See DESIGN.md. Every check: /verif/check.sh <ID> quick|thorough (env VERIF_SEED). Exit 0 held on everything explored; 1 + VIOLATION line for a violation not listed in KNOWN_FINDINGS.txt; 2 inconclusive. KNOWN-FINDING lines are printed for listed findings that re-confirm.",
 "not_applicable":[]}
for p in props:
    if p in C:
        t,text,note,ref=C[p]
        m["checks"].append({"property_id":p,"quick_cmd":"./check.sh %s quick"%p,"thorough_cmd":"./check.sh %s thorough"%p,
          "evidence_file":"/verif/evidence/%s.json"%p,"replay_cmd_template":"./check.sh replay {path}","engine":"vcheck",
          "level_claimed":{"category":"exploration","text":text,"design_ref":ref},"level_note":note,"technique":t})
    else:
        m["not_applicable"].append({"property_id":p,"reason":"monitor not built yet (work in progress; planned design in DESIGN.md section 5)"})
json.dump(m,open('/verif/MANIFEST.json','w'),indent=1)
print("claimed:",sorted(C))
