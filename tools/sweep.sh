#!/bin/bash
# tools/sweep.sh <tier> <seed> [ids...] : run checks, print one line per property
tier=$1; seed=$2; shift 2
ids="$@"; [ -z "$ids" ] && ids="C01 C02 C03 C04 C05 C06 C07 C08 C09 C10 C11 C12 C13 C14 C15 C16 C17 C18 C19 C20"
for id in $ids; do
  s=$(date +%s)
  out=$(VERIF_SEED=$seed /verif/check.sh $id $tier 2>&1); rc=$?
  e=$(date +%s)
  echo "$id seed=$seed tier=$tier rc=$rc $((e-s))s $(echo "$out" | grep -E '^SUMMARY' | cut -c1-150)"
  echo "$out" | grep -E "^VIOLATION|^INCONCLUSIVE|^  sig=" | head -8 | cut -c1-300
done
