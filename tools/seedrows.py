#!/usr/bin/env python3
# tools/seedrows.py <seed ids...> : DESIGN.md table rows for seeds, from seeded/<id>/meta.json and seeded/MATRIX.txt
import json, sys, re
mx = {}
for l in open('/verif/seeded/MATRIX.txt'):
    m = re.match(r'(\S+) (DETECTED|MISSED) by (\S+): (.*)', l)
    if m: mx[m.group(1)] = (m.group(2), m.group(3), m.group(4))
for sid in sys.argv[1:]:
    meta = json.load(open(f'/verif/seeded/{sid}/meta.json'))
    summ = re.sub(r'\s+', ' ', meta.get('summary', ''))[:200].replace('|', '\\|')
    st, by, sigs = mx.get(sid, ('?', '?', ''))
    sigs = re.sub(r'\(after.*', '', sigs).split()[:2]
    print(f"| {sid} | {summ} | {by if st=='DETECTED' else 'MISSED'} | " + ', '.join('`' + s.replace('|', '\\|') + '`' for s in sigs) + " |")
